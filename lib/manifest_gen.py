#!/usr/bin/env python3
"""Generates /verif/MANIFEST.json from the table below (single source of truth for the claims)."""
import json
import os
import subprocess

ROOT = os.path.dirname(os.path.dirname(os.path.abspath(__file__)))

CLAIMS = {
    "C18": dict(
        category="model_checking",
        text=("IndexOps.tla states the naive definitions; TLC enumerates every call of each utility over an exhaustive "
              "small domain, checks the algebraic laws (erase/insert inverse, collapse map monotone and onto, expand/"
              "collapse inverse, triangle remap = triangles with surviving corners, strip winding) and exports each call; "
              "the harness replays every exported call on the real templates for all index types used by callers under "
              "ASan+UBSan, and random larger calls plus the 65535-element edge are trace-validated against the same "
              "definitions. Exhaustive within the bound, sampled beyond."),
        note=("Trusted: TLC, the JSON bridge, ASan/UBSan for the memory-safety clause (not expressible in TLA+). Index lists "
              "are strictly ascending (documented precondition). Values of freshly inserted slots are unspecified."),
        technique="TLA+ definitions + TLC exhaustive case enumeration, replayed on the C++ templates; TLC trace validation of recorded calls",
        design="DESIGN.md §4 C18, §3.4"),
}

CLAIMS["C06"] = dict(
    category="model_checking",
    text=("NifGraph.tla is an executable reference model of the indexed block graph and its header mirror, with each public "
          "edit call transcribed (X_Exact) and the property stated as a step relation over (pre, witness, post) plus the "
          "HeaderMirror state invariant. TLC explores the full reachable closure of add/delete/replace/set-order/delete-by-type/"
          "prune/prune-nodes histories on <= 3 blocks (with and without a size table); every transition is exported and replayed "
          "on live NifFile objects along the same paths, with SaveRaw+Load equivalence checked in every node; seeded random edit "
          "sequences on the 26 sample files are trace-validated against the same relations. Exhaustive on the small scope, "
          "sampled on real files."),
    note=("Trusted: TLC, the projection (GetChildIndices/GetPtrs + an independent parser of NiHeader::Put output), the uid hook "
          "(H1) for identities in traces. Operations are called with in-range indices and well-formed references; dangling "
          "references belong to C15. A replacement block inherits the identity of its slot."),
    technique="TLA+ state machine of the block graph, TLC exhaustive exploration, every transition replayed on the implementation; TLC trace validation of recorded steps",
    design="DESIGN.md §3.1, §4 C06")

CLAIMS["C04"] = dict(
    category="model_checking",
    text=("The property is stated in NifGraph.tla as step relations over (pre, witness, post): SortViol (permutation, references "
          "stable, node child sets kept and no child listed more often, masked content ids unchanged, parentless root first, "
          "unknown blocks => untouched), IdempotentViol, OptimizeViol/SaveDefaultViol (only blocks unreferenced by survivors vanish, "
          "everything reachable from the root stays) and FileViol (the written file is the post state). TLC enumerates every graph "
          "of <= 3 blocks over the kinds the sorter distinguishes and marks the well-typed acyclic ones; the harness builds each from "
          "real classes in an OB/FO3-family and a later version and runs PrettySortBlocks twice, SetShapeOrder with every name list "
          "over {A,B,Z} (duplicates, missing names), Optimize and the default Save twice; every step is trace-validated by TLC. The "
          "same operations are validated on the 26 sample files."),
    note=("Trusted: TLC, projection (uids H1, reference/string offsets H2/H3 for masked content ids), independent header parser. "
          "No transcription of the sorter yet (no design-level search beyond the enumerated graphs). Ill-typed/cyclic/dangling "
          "graphs are C15's. Bounds are recomputed before the pre snapshot."),
    technique="TLA+ step relations evaluated by TLC on recorded implementation steps (trace validation) over TLC-enumerated graphs and sample files",
    design="DESIGN.md §3.1, §4 C04")

CLAIMS["C14"] = dict(
    category="model_checking",
    text=("Every shape of every sample (quick: up to 6 per file) is cloned twice into {the same model, a fresh model of the same version, "
          "another loaded sample of the same version, a fresh model that already holds only the ancestor bone of a re-nested skeleton}. "
          "The harness records the sub-graph below the source shape and below the clone (block types, content ids with reference and "
          "string-index fields masked, strong references and weak pointers as positions within the sub-graph or as the name of the node "
          "they designate), bone lists, node existence/parents, source raw-save bytes before/after and the clone as found after save and "
          "reload. TLC judges NifCopyTrace!CloneViol on each event: same types, contents, reference and pointer structure, no reference "
          "outside the destination, none shared with the source, same bone names all existing, source unchanged, reload has the clone "
          "with the same geometry."),
    note=("Pointers to a model's root compare as 'root' whatever its name. The renamed shape block itself is exempt from the content "
          "comparison in versions with inline strings. Bounded by the samples and the four destinations."),
    technique="TLC trace validation of recorded clone sub-graphs (NifCopyTrace!CloneViol) over sample shapes x destinations x repeated cloning",
    design="DESIGN.md §4 C14",
)
CLAIMS["C15"] = dict(
    category="fault_enumeration",
    text=("The fault space is defined in TLA+: NifFault.tla enumerates Corrupt(reference field, value) for every serialised reference of "
          "every sample file (byte offsets located through the NiRef hook) over the kinds the property lists - empty, count, beyond "
          "count, self, each ancestor, in-range incl. wrong type - and NifGraphMC (alphabet sort, Corrupt) enumerates whole graphs of "
          "<= 3 blocks with dangling / ill-typed / cyclic references. The harness injects each fault (1..3 simultaneous) and runs load, "
          "the full query battery, copy + assign, sort, default save, reload and the battery again in a forked child under ASan+UBSan "
          "with a 25 s watchdog; TLC validates the recorded post-fault contract and no spec action accepts a Crash/Timeout record."),
    note=("The decisive observation for 'no memory error / UB / hang' is the sanitizer and the watchdog, not TLC (DESIGN.md §8). UBSan's "
          "alignment check is off: nifly reads packed on-disk structs through references by design, which fires on unmodified inputs. "
          "Quick tier samples the enumerated faults (seeded); files above 100 blocks are capped."),
    technique="TLC-enumerated fault space (TLA+ Corrupt action), byte-level injection, sanitizer + watchdog observation, TLC validation of the post-fault contract",
    design="DESIGN.md §4 C15")

CLAIMS["C19"] = dict(
    category="model_checking",
    text=("TexPath.tla transcribes the regex pipeline stage by stage over a 12-token alphabet (separators, whitespace, dot, colon, "
          "letters, textures/TEXTURES, data/Data) and states the canonical form independently of it. TLC enumerates every token "
          "string up to length 4 (thorough: 5) x needsPrefix x terrain and checks canonical form and idempotence of the transcription "
          "(design-level: this found five defects of the pinned clean-up, now fixed); every case is replayed through every slot kind "
          "(texture set, the five effect-shader paths, NiSourceTexture) by TrimTexturePaths and by Save+Load, and results are "
          "trace-validated by TLC (canonical clauses, idempotence, only-removes-a-prefix). Seeded random byte strings up to 4 KiB "
          "(non-UTF-8, drive/UNC prefixes) are cleaned under ASan and validated the same way."),
    note=("Trusted: TLC, the tokeniser of the harness (character-level and token-level semantics coincide for this alphabet), POSIX "
          "is_relative semantics. Never-throws/never-loops is observed by the forked harness (ASan + watchdog)."),
    technique="TLA+ transcription + independent canonical-form predicate, TLC exhaustive enumeration replayed on the implementation, TLC trace validation",
    design="DESIGN.md §3.5, §4 C19")

CLAIMS["C20"] = dict(
    category="model_checking",
    text=("Xform.tla is an exact rational model of MatTransform algebra and 3x3 inversion. TLC enumerates a lattice on which float "
          "arithmetic is (nearly) exact - 24 axis rotations x Pythagorean rotations (3/5,4/5; 5/13,12/13), dyadic scales, integer "
          "translations, all invertible matrices over {-1,0,1}, grid point sets - checks every law exactly on the model and exports "
          "the cases; the harness evaluates the real functions (InverseTransform, ComposeTransforms, ApplyTransform, ToMatrix, "
          "Matrix4::Inverse, Matrix3::Invert/Determinant, RotMatToVec/RotVecToMat, CalcAverage*/CalcMedian*, BoundingSphere) and "
          "TLC validates results that leave the float tolerance plus a sample. Seeded random rotation vectors (also next to 0, "
          "pi/3, pi), point sets and shape-bounds edit histories in six versions are validated as integer inequalities."),
    note=("Trusted: TLC, projection of floats to integers scaled by 1000 (tolerance 3e-3). The lattice exercises formula structure, "
          "not floating-point conditioning; generic irrational angles are covered only by the random round-trip leg."),
    technique="exact rational TLA+ model, TLC enumeration of a lattice replayed on the C++ functions, TLC trace validation with integer slack",
    design="DESIGN.md §3.5, §4 C20")

CLAIMS["C01"] = dict(
    category="model_checking",
    text=("NifWire.tla states the round-trip machine (Raw -> Normal): own output loads, the raw re-save of the library's output is equal "
          "field by field (header tables, per-block type/size/masked content id/reference values/string indices) and byte by byte, the "
          "default-save chain is a fixed point from round 2. NifWireMC enumerates the configuration space with TLC - all 304 registered "
          "block types (read from the factory) x 11 version triples x 3 population modes, plus value boosting of one scalar at a time - and "
          "the harness executes exactly those configurations: a typed generator driven by hooks H2-H4 feeds factory->Load() to obtain a "
          "populated instance that the library then writes, reloads and rewrites; the 26 sample files run through the same machine. "
          "Every record is judged by TLC (NifWireTrace)."),
    note=("Byte equality inside a payload is hash equality computed by the harness; TLC adds protocol and localisation. Instances for which "
          "the generator exceeds its budget or whose generator input makes the reader fail are outside the quantifier; crashes are attributed "
          "by a re-run under ASan. Counts <= 3."),
    technique="TLC-enumerated configuration space of a TLA+ round-trip machine executed on the implementation; TLC trace validation of the recorded files",
    design="DESIGN.md §3.2, §4 C01")
CLAIMS["C07"] = dict(
    category="model_checking",
    text=("NifWire!WellFormedViol is the property: table lengths, type indices in range, no unused or duplicate type name, a walk over the "
          "size table from the end of the header lands on the 8-byte footer at end of file, sizes sum to the file length, true maximum string "
          "length, each string once, every string index stored in a block empty or inside the table. It is evaluated by TLC on what an "
          "independent reader (own header parser + size walk, no nifly code) sees in every file written by the round-trip machine of C01 "
          "(304 types x versions x modes, samples) and in files written after seeded edit sequences (graph edits, vertex deletion, LE<->SE "
          "conversion, cloning, fresh blocks, same-type replacement; raw and default saves)."),
    note=("Trusted: the independent parser, hook H3 for the position of string indices inside payloads. Oblivion files (no size table) are "
          "walked with sizes measured by Put()."),
    technique="independent header/size-table reader + TLA+ well-formedness predicate evaluated by TLC on every recorded file (trace validation)",
    design="DESIGN.md §3.2, §4 C07")

CLAIMS["C02"] = dict(
    category="model_checking",
    text=("The repeat-save machine of NifWire.tla: one live model is saved three times with the raw options and three times with the default "
          "options, with the full read-only query battery (file/blocks/nodes/per-shape geometry, textures, bones, weights, partitions, "
          "segments) before and after each save. TLC judges every recorded execution: saves 2 and 3 equal save 1 after canonical "
          "string-table renumbering (indices compared through the strings they denote; header tables, sizes, masked content ids and "
          "reference values equal) and all query digests are unchanged. Inputs: the 26 samples fresh and after seeded graph edits, and "
          "synthesised instances of the 304 block types in seven versions."),
    note=("Queries returning block indices move under a sorting save, so for the default options the measurement starts after one normalising "
          "default save (what that first save may change is C04). Accessors that convert cached data lazily are run once before the first "
          "battery. Content equality is hash equality from the harness."),
    technique="TLA+ repeat-save relation evaluated by TLC on recorded executions (trace validation) over sample, edited and synthesised models",
    design="DESIGN.md §3.2, §4 C02")
CLAIMS["C03"] = dict(
    category="model_checking",
    text=("NifUnknownMC enumerates with TLC, per sample file with a size table, the sets of block types to relabel as unknown (every "
          "non-empty subset up to 6 types, else singletons, their complements and the full set). The harness relabels them in the file "
          "bytes without library code, loads, optionally edits strings of known blocks or copies the model (constructor and assignment), "
          "saves with default and raw options, and TLC judges NifWire!UnknownViol on what the independent reader sees: same block "
          "count/order/type names, opaque payloads and sizes byte-identical, the input string table a prefix of the output's, output "
          "WellFormed, unknown presence detected."),
    note="Payload equality is hash equality (unmasked) from the harness. Only files with block sizes can hold unknown blocks.",
    technique="TLC-enumerated relabelling subsets executed on the implementation; TLA+ preservation relation evaluated by TLC on the recorded files",
    design="DESIGN.md §3.2, §4 C03")

CLAIMS["C05"] = dict(
    category="model_checking",
    text=("For every registered block type x version x population mode the typed generator yields a populated instance. The hooks report "
          "which NiRef / NiStringRef objects pass through Sync while the block is read and while a clone is written; TLC evaluates "
          "NifWire!EnumViol on each record: synced references are a subset of GetChildRefs u GetPtrs, synced string references a subset "
          "of GetStringRefs (versions with a string table), GetChildIndices lists the values of GetChildRefs, and - the dynamic "
          "consequence - after DeleteBlock, SetBlockOrder and a string-table rebuild the values written at the recorded fields equal "
          "what NifGraph's ShiftRef / MapRef predict, i.e. no stale index."),
    note=("A reference is defined operationally: a 4-byte field synced at the address of a live NiRef (H2+H4) or a pass through "
          "NiStringRef::Read/Write (H3). Bounded by what the generator populates (counts <= 3)."),
    technique="hook-recorded serialisation sets vs enumerator sets and graph-model predictions, judged by TLC (trace validation) for all types x versions x modes",
    design="DESIGN.md §3.2, §4 C05")

CLAIMS["C16"] = dict(
    category="fault_enumeration",
    text=("NifTrunc.tla defines the crash points Truncate(file, k): every byte offset for files up to 16 KiB, and for larger ones the field "
          "boundaries (-1..+2) taken from the recorded field tape of the loader plus a stride; inputs are the 26 samples and synthesised "
          "normal-form files of the registered block types. TLC enumerates the points; the harness loads each prefix, runs the full query "
          "battery, copies, saves (default and raw) and destroys the model in forked children with a watchdog (all points uninstrumented, a "
          "seeded share under ASan+UBSan); TLC validates the recorded loader contract (documented return code, cleared model after failure, "
          "header block count after success, saving returns) and accepts no Crash/Timeout record."),
    note=("The decisive observation for memory/arithmetic faults is the sanitizer / the signal, not TLC (DESIGN.md §8). Quick tier takes a seeded "
          "1/9 of the points; files above 100 kB are not run under ASan."),
    technique="TLC-enumerated truncation points from recorded field tapes, forked execution under sanitizers + watchdog, TLC validation of the loader contract",
    design="DESIGN.md §4 C16")

CLAIMS["C08"] = dict(
    category="translation_validation",
    text=("Two programs - the vendored reference snapshot /verif/ref (pinned sources + add-only hooks) and /repo's working tree - are built "
          "with the same harness. Each synthesises normal-form files for the registered block types x 11 versions x 3 modes with the same "
          "seeds; every file written by either build and every sample file is loaded and raw-re-saved by both. TLC evaluates "
          "NifWire!TwoBuildViol per file: same load result, same re-encoding (header tables, sizes, per-block hashes, whole-file hash), "
          "each build consumes every block exactly, normal-form files re-encode to identical bytes in both builds."),
    note=("The reference build's recorded behaviour is the specification instance; TLC is the comparator and localiser. Hash equality stands "
          "for byte equality. Field values are those the typed generator produces (small counts and enums)."),
    technique="translation validation of two builds over synthesised and sample files, relation stated in TLA+ and evaluated by TLC",
    design="DESIGN.md §3.2, §4 C08")

CLAIMS["C09"] = dict(
    category="model_checking",
    text=("MeshOps!DeleteVertsViol states the property with the naive IndexOps definitions: surviving vertices = Erase(labels, I) with "
          "positions and all attributes, triangles = MapTris(tris, CollapseMap(I, nv)) in order for list kinds, skin weights follow "
          "their vertices, every index anywhere (triangles, strips, NiSkinData, partition vertex maps / triangles / strips, triParts, "
          "segments, locked normals) valid, counters and per-vertex arrays agree, segments tile the triangles, reload gives the same "
          "geometry. TLC (MeshMC) enumerates every labelled mesh of <= 5 vertices / <= 3 triangles x every non-empty index subset; the "
          "harness runs each on real shapes in OB, FO3, SK, SSE, FO4 (segmented) and FO76, unskinned and skinned, from normal form, and "
          "TLC judges every record. Sample files: every geometry kind incl. strips, dynamic, sub-index and mesh-LOD shapes with single / "
          "prefix / suffix / random / scattered / all subsets and repeated deletion."),
    note=("Vertex identity is read from positions of constructed meshes (vertex i at (i,0,0)); attribute equality is content-id equality. Quick "
          "tier runs a seeded 1/6 of the enumerated cases. Partition coverage after deletion is not demanded (C10 applies after a rebuild)."),
    technique="TLC-enumerated meshes x index subsets executed on real shapes; TLA+ relation over IndexOps definitions evaluated by TLC on every recorded step",
    design="DESIGN.md §3.4, §4 C09")

CLAIMS["C10"] = dict(
    category="model_checking",
    text=("MeshOps!PartitionViol states the property on the projected partition state: the bag of shape triangles (up to rotation) equals "
          "the bag of all partitions' true triangles (exactly-once cover), each vertex map lists exactly the used vertices once, mapped "
          "triangles translate back through the vertex map, bone count per partition <= the game's limit, partition bones exist, bone slots "
          "index the partition's bones, weights non-negative and summing to one or zero, dismember list aligned. TLC judges it after every "
          "step of UpdateSkinPartitions / GetShapePartitions / SetShapePartitions (seeded reassignment incl. -1 and a new id) / "
          "RemoveEmptyPartitions / DeletePartitions / save+reload / SetDefaultPartition on constructed ribbons with 1..100 bones around "
          "the limits 18 and 80 in OB, FO3, SK, SSE, on seeded random weightings, and on every skinned sample shape; all "
          "triangle-to-partition label lists up to 5 triangles are enumerated by TLC in C17's partassign family and judged with the same "
          "relation."),
    note=("Derived data is judged after the call documented to rebuild it and after reload. DeletePartitions is exercised after reassigning the "
          "deleted partition's triangles (it leaves them unassigned by design). No transcription of the partition builder."),
    technique="TLA+ partition invariants evaluated by TLC on recorded implementation states (trace validation) over constructed, random and sample meshes",
    design="DESIGN.md §3.4, §4 C10")
CLAIMS["C17"] = dict(
    category="model_checking",
    text=("TLC (MeshMC) enumerates every label list for 0..5 triangles over four segmentation infos (sub-segments, permuted ids, empty "
          "segments, unassigned -1) and every assignment of up to 5 triangles to 1..3 dismember partitions. Each is applied to a real FO4 "
          "shape (SetShapeSegments, GetShapeSegments, then vertex deletion, save, reload) resp. to FO3/SK/SSE shapes (SetShapePartitions, "
          "UpdateSkinPartitions, GetShapePartitions). TLC judges MeshOps!SegmentationViol / PartAssignViol: the bag of (triangle, label) "
          "pairs is preserved up to the documented renumbering, segment structure as given, the non-empty ranges tile the triangles "
          "contiguously and in order, counts sum to the triangle count, triangles are a permutation; the same holds after vertex deletion "
          "and after reload."),
    note="Labels that name no segment of the given info are outside the quantifier. Offsets of empty ranges are not constrained.",
    technique="TLC-enumerated label lists executed on real shapes; TLA+ relations evaluated by TLC on every recorded step",
    design="DESIGN.md §3.4, §4 C17")

CLAIMS["C13"] = dict(
    category="model_checking",
    text=("TLC (MeshMC, family setget) enumerates every history of up to 2 (thorough: 3) calls over {SetVerts same/different count, SetUvs, "
          "SetNormals, SetTangents, SetBitangents, SetColors, SetEyeData, SetTriangles, save+reload} x 3 value variants; the harness runs "
          "each on a shape created by CreateShapeFromData in OB, FO3, SK, SSE, FO4, FO76 and logs what every getter returns before and "
          "after each call. TLC judges MeshOps!SetGetViol: the getter returns the given values, every other per-vertex array is untouched "
          "(the companion of tangents/bitangents may be created), vertex count and triangles kept, all per-vertex arrays have the vertex "
          "count, triangle indices valid; after a different vertex count every other array is absent or of the new length; after save and "
          "reload every getter returns the same. Limit meshes (1, 2, 65534, 65535 vertices; 65535/65536/70000 triangles) are created, read "
          "back and reloaded."),
    note=("Values are chosen exact under each format's quantisation (components +-1, colours 0/1, UVs multiples of 1/8) so that exact equality of "
          "content ids is the right comparison. Setters are called within their documented precondition (array length = vertex count)."),
    technique="TLC-enumerated setter histories executed in six versions; TLA+ setter/getter relation evaluated by TLC on every recorded step",
    design="DESIGN.md §3.4, §4 C13")

CLAIMS["C12"] = dict(
    category="model_checking",
    text=("MeshOps!ConvertViol states the per-shape relation (positions bit-exact, same triangle set, UVs and colours within storage precision, "
          "only all-white colours may be dropped, same bone list, per-vertex weights within 3/1000, shader and parent kept, sibling names "
          "distinct). TLC (MeshMC, family convert) enumerates every combination of the five conversion options x direction x model "
          "features (skinned, vertex colours, a stitched NiTriStrips shape, two dismember partitions with different bone palettes, "
          "duplicate sibling names); the harness builds each model, converts, saves, reloads in the target version and converts back; "
          "TLC judges the relation on the converted model, on the reloaded file together with the partition invariants of C10, and on "
          "the there-and-back result. The LE/SE sample files are converted with default and head-part options."),
    note=("Head-part conversion is exercised only where the option is meaningful (skinned shapes; dynamic shapes on the SE side). A source "
          "whose per-vertex weights are not visible through the accessor is not compared on weights. Quick tier: a seeded quarter of the "
          "enumerated combinations."),
    technique="TLC-enumerated option/feature combinations executed on constructed and sample models; TLA+ conversion relation evaluated by TLC on every record",
    design="DESIGN.md §3.4, §4 C12")

CLAIMS["C11"] = dict(
    category="model_checking",
    text=("NifCopy.tla is a two-model machine (source, copy): copy by constructor or by assignment over an existing model, then every "
          "interleaving of up to 2 (thorough: 3) steps of seven edit kinds, raw/default saves and destruction on either side. TLC explores "
          "all behaviours and exports them; the harness executes each on real models - LE and Oblivion models whose shapes hold a cached "
          "pointer into a separate geometry block, SE, FO4 (thorough: collision and animated files) - under AddressSanitizer, and logs per "
          "step the projection of both sides (all query answers + block graph with payload content ids), byte equality of the saves right "
          "after the copy, and shapes whose cached geometry pointer is not their own model's block. TLC (NifCopyTrace) judges CopyEqual, "
          "Frame and NoForeign; sanitizer reports become Crash records."),
    note="Use-after-free style dependence is observed by ASan (DESIGN.md §8); content equality is content-id equality.",
    technique="TLA+ two-model machine explored by TLC; every behaviour replayed on real objects under ASan; TLC trace validation of the recorded projections",
    design="DESIGN.md §3.3, §4 C11")

NOT_YET = {}


# later strengthenings (see DESIGN.md 6.3), stated as additions to the texts above
CLAIMS["C02"]["text"] += (" A further save is taken before any query and must equal the first one after the battery (saves interleaved with "
                          "read-only queries); further inputs: the samples with every mapped skin-partition triangle rotated once and with one block "
                          "type relabelled unknown.")
CLAIMS["C02"]["note"] += (" The one by-design effect of a query on a later save (strip partitions converted by GetShapePartitions, Skinned_OB) is a "
                          "listed known finding.")
CLAIMS["C08"]["text"] += (" Quick tier: every (type, version) pair, all three population modes for a third of the types and one rotating mode for "
                          "the others.")
CLAIMS["C09"]["text"] += (" Also enumerated: two fixed interleaved meshes x every subset of <= 2 indices, and skinned shapes with two partitions "
                          "built from alternate triangles whose cached shape-indexed triangles are live at the deletion (clause "
                          "PartitionTrueTrianglesAgree).")
CLAIMS["C11"]["text"] += " The source may be edited or saved once before it is copied (constant Pre)."
CLAIMS["C12"]["text"] += " The converted triangle set is also compared with the set the source strips define by IndexOps!StripTris."

CLAIMS["C01"]["text"] += (" A value sweep (c01-probe) finds, per (type, version), the generator field values that steer the layout of the "
                          "block (enumeration values, flags, absent strings; one field and one later field on top); those settings are further "
                          "configurations. Every configuration is run a second time on the file whose block payload is the very bytes the "
                          "generator served (an input no build of the library wrote).")
CLAIMS["C04"]["text"] += (" NifSort.tla transcribes the sorter; NifSortMC checks on every enumerated graph that the transcription terminates and "
                          "satisfies the relation, and every sort / shape-order step of the library on those graphs is compared with the "
                          "transcription (exact on the whole scope; a difference would be model drift).")
CLAIMS["C04"]["note"] = CLAIMS["C04"]["note"].replace("No transcription of the sorter yet (no design-level search beyond the enumerated graphs). ", "")
CLAIMS["C07"]["text"] += (" Also judged: files written by one object reused across files and versions and for new models, and files in which "
                          "one type / all types are unknown to the library.")
CLAIMS["C08"]["text"] += (" The value-sweep settings of C01 are generated by both builds as well; configurations on which the reference build "
                          "does not re-encode its own normal form to itself are outside the quantifier (decided from the reference build alone).")
CLAIMS["C10"]["text"] += (" Also: 5..9 influences per vertex, partition ids beyond the given list, and the clause that a partition's per-vertex "
                          "bone/weight data is the shape's.")
CLAIMS["C11"]["text"] += " The copy's bytes are also compared with a model that was never copied, taken through the same steps."
CLAIMS["C12"]["text"] += " Models with 100 bones (beyond the target's per-partition limit) are among the enumerated features."
CLAIMS["C13"]["text"] += (" Every history also runs on the model reopened from a file and ends with save+reload; the first reload is compared with "
                          "what was written (FirstReloadViol); a composite fill-all op is part of the alphabet.")
CLAIMS["C14"]["text"] += (" Further destinations: a fresh model for a source whose skeleton root is a node of its own, and for a Fallout 4+ source "
                          "flagged for model-space normals; all per-vertex arrays are part of the geometry comparison.")
CLAIMS["C15"]["text"] += (" Design level: NifSortMC shows that the sorter transcription terminates on every graph with corrupt references, and the "
                          "library's sort of each corrupt graph equals the transcription's.")
CLAIMS["C16"]["text"] += " Inputs also include models built through the API with features no sample has (FO4 sub-segments, two LE partitions)."
CLAIMS["C17"]["text"] += " Under vertex deletion (also of a middle vertex) every surviving triangle keeps its label."
CLAIMS["C19"]["text"] += " The texturing-property slot kind is exercised in the Oblivion and in the Fallout 3 family."

CLAIMS["C06"]["text"] += (" The seeded edit sequences on the sample files also contain the NifFile-level composites (AddNode, SetParentNode, "
                          "DeleteNode, DeleteShape, DeleteShader, DeleteSkinning, AssignExtraData), judged by NifGraph!ModelOpViol.")

CLAIMS["C02"]["text"] += (" The output of the first default save is compared with the second's unless that save pruned blocks; answers that name "
                          "things (parents, bones, skeleton roots, shaders, textures) must survive every save; further inputs: values the storage "
                          "formats cannot hold exactly, a skeleton root of its own, models built with emptied slots and match groups.")
CLAIMS["C03"]["text"] += (" Further variants: a header string table holding a text twice, a file whose only unknown block is an empty one, an explicit "
                          "shape order requested on a model with unknown blocks.")
CLAIMS["C04"]["text"] += " The normalising raw save is judged too, and the sample models also run with emptied entries in their reference lists."
CLAIMS["C06"]["text"] += " Every fourth model of the walk is also saved with the default options and loaded again."
CLAIMS["C09"]["text"] += (" Constructed shapes carry a locked-normal list and (Oblivion) a second UV set; surviving triangles keep their segment and "
                          "partition labels, and the partitions of constructed skinned shapes still hold every triangle once.")
CLAIMS["C13"]["text"] += " Single setters and the composite fill also run on up to three shapes of every sample file."
CLAIMS["C15"]["text"] += " Reference values far beyond the block count are part of the fault space; the quick-tier sample is stratified by corruption kind."
CLAIMS["C17"]["text"] += " Segment cases also run on Fallout 76 shapes; partition assignments are followed by a vertex deletion."
CLAIMS["C20"]["text"] += " Bounding spheres are also computed for small clouds far from the origin."


# round 4 of the seeded changes (DESIGN.md 6.3)
CLAIMS["C01"]["text"] += (" Further inputs: each sample's model written under the other file versions of its game (Oblivion 10.1.0.106 / "
                          "10.2.0.0 / 20.0.0.4, also with the tangent space stored inline; Starfield 173), and every synthesised model also "
                          "stored back to front, so that a sorting save moves every block. Selector fields of the value sweep keep every "
                          "value whose exact sequence of transfers is new.")
CLAIMS["C02"]["text"] += (" Further inputs: the vertex format changed through the API with no partition rebuild, a Starfield model under stream "
                          "173 (as a file and set through the API); the named answers count the bone entries of a skin.")
CLAIMS["C03"]["text"] += " Further variants: unknown types with names of 64, 93 and 200 characters; the file read from a forward-only stream."
CLAIMS["C06"]["text"] += " Every other random walk starts from Create() in the object that held the file."
CLAIMS["C07"]["text"] += (" Further inputs: files saved behind other content of a stream, copies of models (constructor, assignment into a used "
                          "object, CopyFrom); string indices inside opaque blocks are located through the same file under its real type names.")
CLAIMS["C08"]["text"] += (" Both builds must also take the bytes for the same fields: the multiset of (kind, size, value) of every field "
                          "written on the re-save is compared (clause SameFieldValues); the sweep settings of both builds are united.")
CLAIMS["C09"]["text"] += " A mesh with degenerate triangles is among the fixed meshes."
CLAIMS["C10"]["text"] += " Also: a plain skin instance converted by SetShapePartitions, and vertices that no bone has a weight for."
CLAIMS["C11"]["text"] += " Starfield shapes carry two mesh slots; selecting the second on one model (SelectLod) is an edit of that model only."
CLAIMS["C12"]["text"] += " Two shapes sharing one geometry data block are among the enumerated features."
CLAIMS["C13"]["text"] += " A triangle list is also set on a shape whose list was emptied first."
CLAIMS["C14"]["text"] += (" Further sources: an NiTriStrips shape, a skin whose bones are nodes of derived kinds (clause "
                          "BonesCarryTheSourcesContent). The clone is then edited (vertices moved through NifFile, normals dropped through "
                          "NiShape) and the destination itself saved: the source keeps its geometry and the edit is what the destination reloads.")
CLAIMS["C17"]["text"] += (" Partition assignment is also the first operation on a loaded model whose partitions are stored as strips, followed "
                          "either by a rebuild or by save and reload.")
CLAIMS["C18"]["text"] += " Index maps carry other negative markers than -1."
CLAIMS["C20"]["text"] += " Rotation vectors of any length up to four turns: orthonormal result, and whole turns do not matter."

# round 5 of the seeded changes (DESIGN.md 6.3)
CLAIMS["C01"]["text"] += (" Per sample also: one block type relabelled unknown (files with types the library does not know are files it "
                          "accepts), and skin partitions that declare triangles but store no face list.")
CLAIMS["C02"]["text"] += (" Before anything is saved, a copy of the model (the unsaved twin) answers the battery; for saves that neither sort "
                          "nor prune the saved model must answer like it (clause SavedModelAnswersLikeItsUnsavedTwin). A third option mode "
                          "(optimize on, sortBlocks off); a variant with vertices deleted and a node added.")
CLAIMS["C02"]["note"] += (" A second by-design effect is a listed known finding: after an edit of an Oblivion shape the tangent-space extra data "
                          "block is stale until the next save rewrites it.")
CLAIMS["C03"]["text"] += " Animation files (no node, first block a NiControllerSequence) built through the API are inputs too."
CLAIMS["C07"]["text"] += (" StringTable.tla models the header string table as a state machine of its own (transcription of AddOrFindStringId / "
                          "FillStringRefs / UpdateHeaderStrings; statements: indices inside the table and designating the text, strings once, "
                          "none unused, true maximum length, table only grows with unknown blocks); StringTableMC checks it on every small "
                          "table x indices x op sequence, the cases are replayed on a real NiHeader and compared exactly. Export information "
                          "of 253..700 characters is among the edits.")
CLAIMS["C08"]["text"] += " Models built through the API are written by each build and read by both (clause WriterLoadsItsOwnFile)."
CLAIMS["C09"]["text"] += (" Also: one partition per triangle with body parts of their own (a deletion that empties several at once; clauses "
                          "BodyPartsFollowTheirTriangles, DismemberListAligned), and a shape of 66 248 triangles in FO4 / FO76.")
CLAIMS["C10"]["text"] += " Also: a reassignment saved without a rebuild, and one cleaned up (RemoveEmptyPartitions) before the rebuild."
CLAIMS["C12"]["text"] += " Further features: two-sided shapes; SE sources with weights in fixed vertex slots and none in the skin data block."
CLAIMS["C13"]["text"] += (" Inexact unit-vector components must come back within half a storage step; a set triangle list may hold a degenerate "
                          "triangle.")
CLAIMS["C14"]["text"] += " A block referenced twice below the shape is a further source; sub-graphs are compared as unfolded trees."

CLAIMS["C10"]["text"] += (" PartApi.tla models the partition API as a machine: TLC enumerates every history of up to L calls (read + relabel "
                          "by pattern + SetShapePartitions, UpdateSkinPartitions, RemoveEmptyPartitions, DeleteVertsForShape, save + load, "
                          "GetShapePartitions); each history runs on real shapes in FO3, SK and SSE and TLC folds the abstract labels and body "
                          "parts over the logged calls and judges every observation (labels up to renumbering, body parts follow their "
                          "triangles, full invariants after a rebuild and after a reload in a fresh state).")
CLAIMS["C10"]["technique"] = CLAIMS["C10"].get("technique", "") and (CLAIMS["C10"]["technique"] + "; TLC-enumerated call histories of the partition API replayed on the implementation")
CLAIMS["C01"]["text"] += " The sweep settings are the union of what the current and the pinned reference build find."

CLAIMS["C07"]["text"] += (" NifObj.tla models a NifFile object as a container: TLC enumerates every history of load / create / add node / "
                          "assign / CopyFrom / clear / save calls on one object with a donor; at every save a fresh object built with the "
                          "content the machine assigns must write the same bytes, and the written file is judged by WellFormedViol.")

CLAIMS["C17"]["text"] += (" The partition API machine of C10 (PartApi.tla: every call history up to L calls, labels read back up to renumbering, "
                          "body parts following their triangles) also runs here.")

def main():
    props = [json.loads(l) for l in open(os.path.join(ROOT, "properties.jsonl"))]
    commits = subprocess.run(["git", "-C", "/repo", "log", "--format=%H %s", "32497ec..HEAD"], stdout=subprocess.PIPE).stdout.decode().splitlines()
    hook_commits = [c.split()[0] for c in commits if "NIFLY_VERIF" in c]
    checks = []
    na = []
    for p in props:
        pid = p["id"]
        c = CLAIMS.get(pid)
        if not c:
            na.append({"property_id": pid, "reason": NOT_YET.get(pid, "check not built yet in this round (planned, see DESIGN.md §4); no claim is made")})
            continue
        checks.append({
            "property_id": pid,
            "quick_cmd": "bin/check %s --tier quick" % pid,
            "thorough_cmd": "bin/check %s --tier thorough" % pid,
            "evidence_file": "/verif/evidence/%s.json" % pid,
            "replay_cmd_template": "bin/check %s --replay {path}" % pid,
            "engine": "tlc+nvh",
            "level_claimed": {"category": c["category"], "text": c["text"], "design_ref": c["design"]},
            "level_note": c["note"],
            "technique": c["technique"],
        })
    m = {
        "version": 1,
        "setup_cmd": "bin/check setup",
        "hooks": {
            "guard": "NIFLY_VERIF",
            "enable": "bin/check builds /repo's working tree with -DNIFLY_VERIF (cmake -DCMAKE_CXX_FLAGS) into /verif/_work/build-<flavour>",
            "baseline_off_cmd": "bin/baseline-off",
            "source_commits": hook_commits,
            "add_only": True,
        },
        "engines": [
            {"name": "tlc+nvh", "path": "/verif/bin/check",
             "serves_properties": [c["property_id"] for c in checks],
             "kind_free_text": "explicit TLA+ specifications (spec/*.tla) checked by TLC; conformance harness nvh (harness/*.cpp) replays "
                               "TLC-generated cases on the real library and records implementation traces that TLC validates"}],
        "checks": checks,
        "not_applicable": na,
        "notes": "See DESIGN.md. Exit codes: 0 held, 1 VIOLATION, 2 infrastructure error (no verdict).",
    }
    json.dump(m, open(os.path.join(ROOT, "MANIFEST.json"), "w"), indent=1)
    print("MANIFEST.json: %d checks, %d not_applicable" % (len(checks), len(na)))


if __name__ == "__main__":
    main()
