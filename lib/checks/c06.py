"""C06 - block-graph edits keep every reference on its target and the header consistent.

 A. NifGraphMC: TLC explores every history of add/delete/replace/set-order/delete-by-type/prune/prune-nodes from
    Create() on <= MaxBlocks blocks (the full reachable closure), evaluating the property-level relation on every
    transition of the transcription and HeaderMirror in every state. Every transition is exported and replayed by the
    harness on live NifFile objects along the same paths (one implementation step per model transition), plus a
    SaveRaw+Load equivalence check in every node. Steps where the implementation leaves the transcription are judged
    by NifGraphTrace (property-level relation): rejected => VIOLATION, accepted => MODEL-DRIFT.
 B. seeded random edit sequences on the sample files are logged step by step and validated by NifGraphTrace."""
import json
import os

import vlib

SCOPES = {
    # (MaxBlocks, Rich, HasSizes, version used by the harness)
    "quick": [(2, True, True, "SSE"), (2, True, False, "OB"), (3, False, True, "SSE")],
    "thorough": [(2, True, True, "FO4"), (2, True, False, "OB"), (3, True, True, "SSE"), (3, True, False, "OB")],
}


def sig_of(ev, clauses):
    s = {"check": "C06", "event": ev["e"], "clauses": sorted(clauses)}
    if "a" in ev:
        s["op"] = ev["a"].get("op")
    if "file" in ev:
        s["input"] = ev["file"]
    return s


def judge(ck, trace, what):
    """trace validation of implementation events; returns parsed events"""
    lines = [l for l in open(trace) if '"e":"stat"' not in l]
    kept = trace + ".events"
    open(kept, "w").writelines(lines)
    r, viols, n = vlib.validate_trace("NifGraphTrace", kept, tag="c06-" + what)
    ck.add_tlc("NifGraphTrace(%s)" % what, r, "property-level relation on implementation steps")
    evs = [json.loads(l) for l in lines]
    ck.cov["traces_validated_against_impl"] += n
    rejected = set()
    for v in viols:
        ev = evs[v["viol"] - 1]
        rejected.add(v["viol"] - 1)
        small = {k: ev[k] for k in ev if k not in ("pre", "post")}
        ck.reject(sig_of(ev, v["clauses"]), {"clauses": v["clauses"], "event": small},
                  replay={"event": ev, "what": what})
    for i, ev in enumerate(evs):
        if ev.get("e") == "step" and ev.get("match") is False and i not in rejected:
            ck.note_drift({"what": what, "op": ev["a"], "node": ev.get("node")})
    return evs


def run(tier):
    ck = vlib.Check("C06", "model_checking", tier)
    ck.cov["rule"] = ("case = one transition (pre-state, operation, arguments) of the explored state graph, or one logged step of a "
                      "random sequence on a sample file; distinct = distinct transitions; all are non-trivial (each is "
                      "executed on the real library and compared)")
    exe = vlib.build("O1")
    wd = vlib.workdir("c06")
    # ---- B first (cheap): random sequences on the sample files
    rnd = os.path.join(wd, "random.ndjson")
    nsteps = 12 if tier == "quick" else 40
    rc, out, err = vlib.run_harness(exe, ["c06-random", rnd, "26", str(nsteps)])
    if rc != 0:
        raise vlib.InfraError("c06-random failed: " + err[-2000:])
    evs = judge(ck, rnd, "random")
    for ev in evs:
        ck.count_case(["rnd", ev.get("file"), ev.get("step"), ev.get("a")])
    if evs:
        ck.sample({"random_step": {k: evs[0][k] for k in ("file", "step", "a")}})
    # ---- A: exhaustive histories
    for (mb, rich, hs, ver) in SCOPES[tier]:
        name = "mb%d_%s_%s" % (mb, "rich" if rich else "plain", "sizes" if hs else "nosizes")
        cfg = os.path.join(wd, name + ".cfg")
        open(cfg, "w").write("SPECIFICATION Spec\nCONSTANTS MaxBlocks = %d\n HasSizes = %s\n Rich = %s\n Export = TRUE\n"
                             " Alphabet = \"edit\"\n Corrupt = FALSE\n OnlyAdd = FALSE\n ExportStates = FALSE\n"
                             "INVARIANT Refines\nINVARIANT MirrorInv\nACTION_CONSTRAINT Emit\nVIEW View\nCHECK_DEADLOCK FALSE\n"
                             % (mb, "TRUE" if hs else "FALSE", "TRUE" if rich else "FALSE"))
        trans = os.path.join(wd, name + ".trans.ndjson")
        r = vlib.tlc("NifGraphMC", cfg, workers=12, timeout=7000, export_to=trans, tag="c06-" + name, heap="20g")
        ck.add_tlc("NifGraphMC(%s)" % name, r, "full reachable closure; Refines+HeaderMirror; every transition exported")
        if r.rc != 0:
            raise vlib.InfraError("NifGraphMC %s: invariant %s violated in the model\n%s" % (name, r.violated, r.out[-3000:]))
        if r.exported != r.generated - 1:
            raise vlib.InfraError("NifGraphMC %s exported %d of %d transitions" % (name, r.exported, r.generated - 1))
        trace = os.path.join(wd, name + ".trace.ndjson")
        sample_every = max(1, r.exported // 400)
        rc, out, err = vlib.run_harness(exe, ["c06-walk", trans, trace, str(sample_every), ver], timeout=7000)
        if rc != 0:
            raise vlib.InfraError("c06-walk failed (%d): %s" % (rc, err[-2000:]))
        summ = json.loads(out.strip().splitlines()[-1])
        ck.cov.setdefault("walks", {})[name] = summ
        # a walk that stopped early because the library kept crashing is judged on what it recorded (the crash records are
        # rejected by the trace spec); an incomplete walk without any crash is a failure of the machinery
        if (summ["executed"] + summ["crashes"] < summ["edges"] or summ["reached"] != summ["nodes"]) and summ["crashes"] == 0:
            raise vlib.InfraError("c06-walk %s incomplete: %s" % (name, summ))
        ck.cov["evaluations"] += summ["executed"] + summ["reloads"]
        ck.cov["traces_validated_against_impl"] += summ["matched"]      # inherit TLC's verdict on the identical transition
        if summ["modelNotOk"]:
            # the transcription itself leaves the property-level relation somewhere: the implementation is judged on
            # those transitions below (they are all in the trace because `ok=false` edges never count as matched)
            ck.cov.setdefault("model_not_ok", {})[name] = summ["modelNotOk"]
        with open(trans) as f:
            for i, line in enumerate(f):
                if i % 997 == 0 and len(ck.cov["samples"]) < 5:
                    t = json.loads(line)
                    ck.sample({"transition": {"pre": t["pre"], "a": t["a"], "post": t["post"]}})
        ck._distinct.update(("%s:%d" % (name, i)).encode() for i in range(r.exported))
        judge(ck, trace, name)
        if summ["modelNotOk"]:
            raise vlib.InfraError("NifGraphMC %s: %d transitions of the transcription leave the property-level relation; "
                                  "replay them on the code and repair spec or code" % (name, summ["modelNotOk"]))
        os.remove(trans)
    ck.cov["exhaustive"] = True
    ck.assumptions += ["edit operations are called with in-range block indices and well-formed references (-1 or an existing "
                       "index); dangling values belong to C15", "a replacement block takes over the identity of the slot it replaces",
                       "header tables are read by an independent parser from NiHeader::Put output of a header copy"]
    return ck.finish()


def replay(path):
    d = json.load(open(path))
    ev = d["replay"]["event"]
    wd = vlib.workdir("c06")
    p = os.path.join(wd, "replay.ndjson")
    open(p, "w").write(json.dumps(ev) + "\n")
    r, viols, n = vlib.validate_trace("NifGraphTrace", p, tag="c06-replay")
    for v in viols:
        print("VIOLATION property=C06 replay=%s" % path)
        print("  clauses:", v["clauses"])
    return 1 if viols else 0
