"""C16 - truncated files never crash the loader.

 NifTrunc.tla defines the crash points: Truncate(file, k) for every byte offset of files up to 16 KiB, and for larger files
 every recorded field boundary (-1, +0, +1, +2) from the field tape of the intact file plus a stride. Inputs are the 26 sample
 files and synthesised files (normal form) of the registered block types. The harness loads each prefix and then queries
 (full battery), copies, saves (default and raw) and destroys what was loaded, in forked children with a watchdog, under
 ASan+UBSan for a seeded share of the points and uninstrumented for all of them. TLC validates the recorded loader contract
 (NifGraphTrace: documented return code, cleared model after a failed load, block count = header count after a successful one,
 what was loaded can be saved); no action accepts a Crash/Timeout record."""
import json
import os

import vlib


def run(tier):
    ck = vlib.Check("C16", "fault_enumeration", tier)
    ck.cov["rule"] = "case = (file, truncation offset); distinct = distinct pairs; every one is loaded, queried, copied, saved and destroyed"
    exe = vlib.build("O1")
    exe_asan = vlib.build("asan")
    wd = vlib.workdir("c16")
    tapes = os.path.join(wd, "tapes.ndjson")
    rc, out, err = vlib.run_harness(exe, ["c16-tapes", tapes, "6" if tier == "quick" else "1"], timeout=3000)
    if rc != 0:
        raise vlib.InfraError("c16-tapes failed: " + err[-1000:])
    ck.cov["input_files"] = sum(1 for _ in open(tapes))
    sample, stride = (9, 8192) if tier == "quick" else (1, 512)
    cfg = os.path.join(wd, "trunc.cfg")
    open(cfg, "w").write("SPECIFICATION Spec\nCONSTANTS SmallLen = 16384\n Stride = %d\n Sample = %d\n Phase = %d\nINVARIANT Emit\nCHECK_DEADLOCK FALSE\n"
                         % (stride, sample, vlib.SEED % sample))
    pts = os.path.join(wd, "points.ndjson")
    r = vlib.tlc("NifTrunc", cfg, workers=8, timeout=6000, env={"TAPES": tapes}, export_to=pts, tag="c16-points", heap="16g")
    ck.add_tlc("NifTrunc", r, "crash points from the field tapes")
    if r.rc != 0 or r.exported != r.distinct:
        raise vlib.InfraError("NifTrunc: rc=%d exported %d of %d" % (r.rc, r.exported, r.distinct))
    runs = [("all", exe, 1)]
    runs.append(("asan", exe_asan, 6 if tier == "quick" else 3))
    for name, ex, every in runs:
        sub = pts
        if every > 1:
            sub = os.path.join(wd, "points_%s.ndjson" % name)
            with open(sub, "w") as f:
                big = {json.loads(l)["file"] for l in open(tapes) if json.loads(l)["len"] > 100000}
                for i, line in enumerate(open(pts)):
                    if i % every == vlib.SEED % every and json.loads(line)["file"] not in big:
                        f.write(line)
        outp = os.path.join(wd, "run_%s.ndjson" % name)
        rc, out, err = vlib.run_harness(ex, ["c16-run", sub, outp], timeout=7000)
        if rc != 0:
            raise vlib.InfraError("c16-run failed: " + err[-1500:])
        summ = json.loads(out.strip().splitlines()[-1])
        ck.cov.setdefault("runs", {})[name] = summ
        rr, viols, n = vlib.validate_trace("NifGraphTrace", outp, tag="c16-" + name, timeout=6000)
        ck.add_tlc("NifGraphTrace(trunc,%s)" % name, rr, "loader contract on recorded executions")
        ck.cov["traces_validated_against_impl"] += n
        ck.cov["evaluations"] += n
        if name == "all":
            ck._distinct.update(("p%d" % i).encode() for i in range(n))
        if viols:
            lines = open(outp).readlines()
            seen = set()
            for v in viols:
                ev = json.loads(lines[v["viol"] - 1])
                c = ev.get("case", ev)
                key = (c.get("file"), tuple(sorted(v["clauses"])), ev.get("why"))
                if key in seen:
                    continue
                seen.add(key)
                ck.reject({"check": "C16", "input": c.get("file"), "clauses": sorted(v["clauses"]), "why": ev.get("why")},
                          {"clauses": v["clauses"], "event": ev, "build": name}, replay={"event": ev})
    with open(pts) as f:
        ck.sample({"crash_point": json.loads(f.readline())})
    ck.assumptions += ["memory/arithmetic faults are observed by ASan+UBSan (alignment check off) on a seeded share of the points and by signals on all of them",
                       "crash points of files above 16 KiB: a spread of <= 400 field boundaries (-1..+2) plus a stride"]
    return ck.finish()


def replay(path):
    d = json.load(open(path))
    print(json.dumps(d["detail"])[:1500])
    return 1
