"""C09 - deleting vertices keeps a shape and its skin data consistent.

 A. MeshMC: TLC enumerates every labelled mesh (<= MaxV vertices, <= MaxT triangles) x every non-empty sorted index subset; the
    harness builds each as a real shape in OB, FO3, SK (NiTriShape), SSE (BSTriShape), FO4 (BSSubIndexTriShape with segments),
    FO76, unskinned and skinned (two bones, rebuilt partitions), deletes the vertices, saves and reloads; every record is judged
    by TLC with MeshOps!DeleteVertsViol - surviving vertices = Erase(labels, I) with attributes, triangles = MapTris(tris,
    CollapseMap(I, nv)) in order (the IndexOps definitions), skin weights follow their vertices, every index anywhere valid,
    counters agree, reload equal, partition invariants.
 B. every shape kind of the sample files (NiTriShape, NiTriStrips, BSTriShape, dynamic, sub-index, mesh-LOD; skinned and not)
    with single / prefix / suffix / random / scattered / all subsets and repeated deletion."""
import json
import os

import vlib


def judge(ck, prop, trace, what, spec="MeshTrace"):
    lines = [l for l in open(trace) if not l.startswith('{"e":"stat"')]
    kept = trace + ".events"
    open(kept, "w").writelines(lines)
    r, viols, n = vlib.validate_trace(spec, kept, tag=prop.lower() + "-" + what, timeout=7000, stack_mb=512, heap="16g")
    ck.add_tlc("%s(%s)" % (spec, what), r, "mesh relations on recorded executions")
    ck.cov["traces_validated_against_impl"] += n
    ck.cov["evaluations"] += n
    seen = set()
    for v in viols:
        ev = json.loads(lines[v["viol"] - 1])
        c = ev.get("case", {})
        if not isinstance(c, dict):
            c = {"case": c, "ver": ev.get("ver")}
        key = (c.get("file"), c.get("shape"), c.get("ver"), c.get("skinned"), ev.get("op"), tuple(sorted(v["clauses"])))
        if key in seen:
            continue
        seen.add(key)
        small = {k: ev[k] for k in ev if k not in ("s", "t", "r", "b", "obs")}
        for side in ("s", "t"):
            if side in ev and isinstance(ev[side], list):
                small[side + "_summary"] = [{k: sh[k] for k in ("kind", "name", "nv", "nt", "bones") if k in sh} for sh in ev[side]][:4]
            elif side in ev:
                small[side + "_summary"] = {k: ev[side][k] for k in ("kind", "nv", "nt", "labelled") if k in ev[side]}
                if ev[side].get("nv", 99) <= 6:
                    small[side + "_summary"].update({k: ev[side][k] for k in ("labels", "tris", "triParts", "segTriParts", "segs") if k in ev[side]})
        sig = {"check": prop, "event": ev["e"], "clauses": sorted(v["clauses"])}
        for k in ("file", "shape", "ver", "skinned", "subset"):
            if k in c:
                sig[k] = c[k]
        if "op" in ev:
            sig["op"] = ev["op"]
        ck.reject(sig, {"clauses": v["clauses"], "event": small}, replay={"event": ev})
    return lines


def run(tier):
    ck = vlib.Check("C09", "model_checking", tier)
    ck.cov["rule"] = ("case = (mesh, index subset, version/kind, skinned) enumerated by TLC, or (sample shape, subset kind, round); distinct = distinct "
                      "cases; each is executed on the real library and judged")
    exe = vlib.build("O1")
    wd = vlib.workdir("c09")
    tr = os.path.join(wd, "samples.ndjson")
    rc, out, err = vlib.run_harness(exe, ["c09-samples", tr, "2" if tier == "quick" else "4"], timeout=6000)
    if rc != 0:
        raise vlib.InfraError("c09-samples failed: " + err[-1500:])
    lines = judge(ck, "C09", tr, "samples")
    ck._distinct.update(("s%d" % i).encode() for i in range(len(lines)))
    if lines:
        ev = json.loads(lines[0])
        ck.sample({"case": ev.get("case"), "I": ev.get("I", [])[:12], "kind": ev.get("s", {}).get("kind"), "nv": ev.get("s", {}).get("nv")})
    sample = 6 if tier == "quick" else 1
    cfg = os.path.join(wd, "mc.cfg")
    open(cfg, "w").write("SPECIFICATION Spec\nCONSTANTS Family = \"delverts\"\n MaxV = 5\n MaxT = 3\n Sample = %d\n Phase = %d\nINVARIANT Emit\nCHECK_DEADLOCK FALSE\n" % (sample, vlib.SEED))
    cases = os.path.join(wd, "cases.ndjson")
    r = vlib.tlc("MeshMC", cfg, workers=12, timeout=6000, export_to=cases, tag="c09-mc", heap="16g")
    ck.add_tlc("MeshMC(delverts)", r, "meshes x index subsets")
    if r.rc != 0:
        raise vlib.InfraError("MeshMC failed")
    ck.cov["cases_exported"] = r.exported
    tr = os.path.join(wd, "cases.trace.ndjson")
    rc, out, err = vlib.run_harness(exe, ["c09-cases", cases, tr], timeout=7000)
    if rc != 0:
        raise vlib.InfraError("c09-cases failed: " + err[-1500:])
    lines = judge(ck, "C09", tr, "cases")
    ck._distinct.update(("c%d" % i).encode() for i in range(len(lines)))
    with open(cases) as f:
        ck.sample({"enumerated_case": json.loads(f.readline())})
    os.remove(cases)
    ck.cov["exhaustive"] = (sample == 1)
    ck.assumptions += ["vertex i of constructed meshes sits at (i,0,0): identity and order of survivors is read from positions",
                       "attribute equality = equality of content ids of the per-vertex values returned by the accessors",
                       "derived partition data is judged after the call documented to rebuild it (constructed skinned cases) - not on sample files",
                       "when the call reports that all vertices/triangles are gone the caller must delete the shape: no reload is attempted"]
    return ck.finish()


def replay(path):
    d = json.load(open(path))
    print(json.dumps(d["detail"])[:1500])
    return 1
