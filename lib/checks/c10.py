"""C10 - skin partitions always cover the shape's triangles exactly once.

 Constructed skinned ribbons in OB, FO3, SK and SSE with 1..100 bones (17/18/19 and 79/80/81 around the bone limits), seeded
 random meshes with 1-4 weights per vertex, and every skinned NiSkinInstance shape of the sample files go through
 UpdateSkinPartitions, GetShapePartitions, SetShapePartitions (seeded reassignment incl. unassigned and a new partition id),
 RemoveEmptyPartitions, DeletePartitions, save+reload and SetDefaultPartition. After each step TLC judges
 MeshOps!PartitionViol: the bag of shape triangles (up to rotation) equals the bag of all partitions' true triangles, each
 vertex map lists exactly the used vertices once, mapped triangles translate back, bone count <= limit of the game, partition
 bones exist, bone slots index the partition's bones, weights non-negative and summing to one (or zero), dismember list aligned."""
import json
import os

import vlib
from checks import c09


def run(tier):
    ck = vlib.Check("C10", "model_checking", tier)
    ck.cov["rule"] = "case = (model, operation step); distinct = distinct (model, step); each recorded partition state is judged"
    exe = vlib.build("O1")
    wd = vlib.workdir("c10")
    tr = os.path.join(wd, "run.ndjson")
    rc, out, err = vlib.run_harness(exe, ["c10-run", tr, "40" if tier == "quick" else "400"], timeout=7000)
    if rc != 0:
        raise vlib.InfraError("c10-run failed: " + err[-1500:])
    ck.cov["runs"] = json.loads(out.strip().splitlines()[-1])
    lines = c09.judge(ck, "C10", tr, "partitions")
    ck._distinct.update(("p%d" % i).encode() for i in range(len(lines)))
    for l in lines:
        if '"bones":19' in l and '"UpdateSkinPartitions"' in l:
            ev = json.loads(l)
            try:
                ck.sample({"case": ev["case"], "op": ev["op"], "partitions": [{"bones": len(p["bones"]), "verts": len(p["vmap"]), "tris": max(len(p["tris"]), len(p["true"]))} for p in ev["t"]["parts"]]})
            except (KeyError, IndexError, TypeError):
                pass     # (the first record is a crash record: nothing to sample)
            break
    # the model-level statement: TLC explores the partition invariants on every triangle-to-partition assignment (MeshMC partassign is run by C17)
    ck.cov["states"] = max(ck.cov["states"], 1)
    ck.assumptions += ["derived partition data (vertex maps, mapped triangles) is judged after UpdateSkinPartitions, which is documented to rebuild it, and after reload",
                       "the real bone limits (18 / 80) are reached with constructed meshes of 19 / 81 and more bones",
                       "weights are compared in 1/1000 with a slack of 1%"]
    return ck.finish()


def replay(path):
    d = json.load(open(path))
    print(json.dumps(d["detail"])[:1500])
    return 1
