"""C10 - skin partitions always cover the shape's triangles exactly once.

 Constructed skinned ribbons in OB, FO3, SK and SSE with 1..100 bones (17/18/19 and 79/80/81 around the bone limits), seeded
 random meshes with 1-4 weights per vertex, and every skinned NiSkinInstance shape of the sample files go through
 UpdateSkinPartitions, GetShapePartitions, SetShapePartitions (seeded reassignment incl. unassigned and a new partition id),
 RemoveEmptyPartitions, DeletePartitions, save+reload and SetDefaultPartition. After each step TLC judges
 MeshOps!PartitionViol: the bag of shape triangles (up to rotation) equals the bag of all partitions' true triangles, each
 vertex map lists exactly the used vertices once, mapped triangles translate back, bone count <= limit of the game, partition
 bones exist, bone slots index the partition's bones, weights non-negative and summing to one (or zero), dismember list aligned."""
import json
import os

import vlib
from checks import c09


def run(tier):
    ck = vlib.Check("C10", "model_checking", tier)
    ck.cov["rule"] = "case = (model, operation step); distinct = distinct (model, step); each recorded partition state is judged"
    exe = vlib.build("O1")
    wd = vlib.workdir("c10")
    tr = os.path.join(wd, "run.ndjson")
    rc, out, err = vlib.run_harness(exe, ["c10-run", tr, "40" if tier == "quick" else "400"], timeout=7000)
    if rc != 0:
        raise vlib.InfraError("c10-run failed: " + err[-1500:])
    ck.cov["runs"] = json.loads(out.strip().splitlines()[-1])
    lines = c09.judge(ck, "C10", tr, "partitions")
    ck._distinct.update(("p%d" % i).encode() for i in range(len(lines)))
    for l in lines:
        if '"bones":19' in l and '"UpdateSkinPartitions"' in l:
            ev = json.loads(l)
            try:
                ck.sample({"case": ev["case"], "op": ev["op"], "partitions": [{"bones": len(p["bones"]), "verts": len(p["vmap"]), "tris": max(len(p["tris"]), len(p["true"]))} for p in ev["t"]["parts"]]})
            except (KeyError, IndexError, TypeError):
                pass     # (the first record is a crash record: nothing to sample)
            break
    api_machine(ck, tier, wd, exe)
    # the model-level statement: TLC explores the partition invariants on every triangle-to-partition assignment (MeshMC partassign is run by C17)
    ck.cov["states"] = max(ck.cov["states"], 1)
    ck.assumptions += ["derived partition data (vertex maps, mapped triangles) is judged after UpdateSkinPartitions, which is documented to rebuild it, and after reload",
                       "the real bone limits (18 / 80) are reached with constructed meshes of 19 / 81 and more bones",
                       "weights are compared in 1/1000 with a slack of 1%"]
    return ck.finish()


def api_machine(ck, tier, wd, exe, prop="C10"):
    """The partition API as a machine (PartApi.tla): TLC enumerates every history of up to L calls out of {read + relabel by a
    pattern + SetShapePartitions, UpdateSkinPartitions, RemoveEmptyPartitions, DeleteVertsForShape, save + load,
    GetShapePartitions}; the harness runs each on a skinned fan loaded from a file in FO3, SK and SSE; TLC folds the abstract
    labels (and body part ids) over the logged calls and judges every observation: the labels read back are the assigned ones
    up to renumbering, body parts follow their triangles, exactly the surviving triangles remain, and the full partition
    invariants hold after a rebuild and after a reload that follows a rebuild or reassignment (coverage and validity after a
    reload that follows a deletion)."""
    L = 4 if tier == "quick" else 5
    cfg = os.path.join(wd, "api_mc.cfg")
    open(cfg, "w").write("SPECIFICATION Spec\nCONSTANTS NT = 4\n L = %d\n Export = TRUE\nINVARIANT Emit\nCHECK_DEADLOCK FALSE\n" % L)
    cases = os.path.join(wd, "api_cases.ndjson")
    r = vlib.tlc("PartApiMC", cfg, workers=8, timeout=3000, export_to=cases, tag="c10-api-mc", heap="8g")
    ck.add_tlc("PartApiMC(L=%d)" % L, r, "call histories of the partition API")
    if r.rc != 0 or r.exported != r.distinct:
        raise vlib.InfraError("PartApiMC: rc=%d exported %d of %d" % (r.rc, r.exported, r.distinct))
    tr = os.path.join(wd, "api_trace.ndjson")
    rc, out, err = vlib.run_harness(exe, ["c10-api", cases, tr], timeout=6000)
    if rc != 0:
        raise vlib.InfraError("c10-api failed: " + err[-1500:])
    lines = c09.judge(ck, prop, tr, "api-histories")
    nrun = sum(1 for x in lines if x.startswith('{"e":"partapi"'))
    ncrash = sum(1 for x in lines if x.startswith('{"e":"crash"'))
    if nrun + ncrash * 40 * 3 < 3 * r.exported:
        raise vlib.InfraError("c10-api executed %d of %d histories" % (nrun, 3 * r.exported))
    ck._distinct.update(("a%d" % i).encode() for i in range(nrun))
    ck.cov["api_histories"] = {"L": L, "histories": r.exported, "runs": nrun}
    if lines:
        ev = json.loads(lines[len(lines) // 3])
        if ev.get("e") == "partapi":
            ck.sample({"api_history": {"ver": ev["ver"], "ops": ev["ops"]}})
    os.remove(cases)


def replay(path):
    d = json.load(open(path))
    print(json.dumps(d["detail"])[:1500])
    return 1
