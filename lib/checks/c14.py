"""C14 - cloning a shape yields a self-contained copy and leaves the source untouched.

 Every shape of every sample file is cloned into the same model, into a fresh model of the same version and into another
 loaded model, twice in a row. For each clone the harness records the sub-graph reachable from the source shape and from the
 clone (BFS over owning references: block type, masked content id, references as local numbers), dangling references, blocks
 shared with the source, bone names and their existence in the destination, the projection of the source model before and
 after, geometry / textures / weights through the accessors, and whether the destination saves and reloads with the clone.
 TLC (NifCopyTrace!CloneViol) judges every record."""
import json
import os

import vlib


def run(tier):
    ck = vlib.Check("C14", "model_checking", tier)
    ck.cov["rule"] = "case = (sample shape, destination, repetition); distinct = distinct cases; every clone is recorded and judged"
    exe = vlib.build("asan" if tier == "thorough" else "O1")
    wd = vlib.workdir("c14")
    tr = os.path.join(wd, "run.ndjson")
    rc, out, err = vlib.run_harness(exe, ["c14-run", tr, "6" if tier == "quick" else "50"], timeout=7000)
    if rc != 0:
        raise vlib.InfraError("c14-run failed: " + err[-1500:])
    ck.cov["runs"] = json.loads(out.strip().splitlines()[-1])
    rr, viols, n = vlib.validate_trace("NifCopyTrace", tr, tag="c14", timeout=6000, stack_mb=256)
    ck.add_tlc("NifCopyTrace(clone)", rr, "CloneViol on recorded clones")
    ck.cov["traces_validated_against_impl"] += n
    ck.cov["evaluations"] += n
    ck._distinct.update(("c%d" % i).encode() for i in range(n))
    lines = open(tr).readlines()
    seen = set()
    for v in viols:
        ev = json.loads(lines[v["viol"] - 1])
        key = (ev.get("file"), ev.get("shape"), ev.get("dest"), tuple(sorted(v["clauses"])))
        if key in seen:
            continue
        seen.add(key)
        small = {k: ev[k] for k in ev if k not in ("srcGraph", "cloneGraph")}
        if "srcGraph" in ev:
            small["srcTypes"] = [b["type"] for b in ev["srcGraph"]][:16]
            small["cloneTypes"] = [b["type"] for b in ev["cloneGraph"]][:16]
            small["cidDiff"] = [i for i, (a, b) in enumerate(zip(ev["srcGraph"], ev["cloneGraph"])) if a["cid"] != b["cid"]][:8]
        ck.reject({"check": "C14", "file": ev.get("file"), "shape": ev.get("shape"), "dest": ev.get("dest"), "clauses": sorted(v["clauses"])},
                  {"clauses": v["clauses"], "event": small}, replay={"event": ev})
    if lines:
        ev = json.loads(lines[0])
        ck.sample({k: ev[k] for k in ("file", "shape", "dest", "rep", "srcBones", "cloneBones") if k in ev})
    ck.cov["states"] = max(ck.cov["states"], 1)
    ck.assumptions += ["content equality = equality of content ids of payloads with reference / string-index fields masked",
                       "by-product blocks (cloned bone nodes) are outside the wording of the property and are not judged"]
    return ck.finish()


def replay(path):
    d = json.load(open(path))
    print(json.dumps(d["detail"])[:1500])
    return 1
