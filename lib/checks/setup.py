"""MANIFEST.setup_cmd: build the hooked library and the harness in every flavour the checks use."""
import vlib


def run():
    try:
        for fl in ("O1", "asan"):
            vlib.build(fl)
    except vlib.InfraError as e:
        print("setup failed:", e)
        return 2
    return 0
