"""C01 - load/save round trip is exact and reaches a byte-level fixed point.

 The configuration space (304 registered block types x 11 version triples x 3 population modes x value boosting of one
 scalar field at a time) is enumerated by TLC as the behaviours of the round-trip machine NifWireMC; the harness executes
 each configuration: a typed generator (hooks H2-H4) feeds factory->Load() to obtain a populated instance, the library
 writes it (f0), loads it, writes F1, loads F1, writes F2 and F3, and runs the default-save chain G1..G4. The 26 sample
 files go through the same machine. Files are read back by the independent parser (masked content ids, reference and
 string-index values) and NifWireTrace judges every record: own output loads, F2 = F1 field by field and byte by byte,
 G3 = G2, all files WellFormed. Crashes/hangs while handling the library's own output are violations (re-run under ASan
 to separate them from damage done by generator input)."""
import json
import os

import vlib

VERSIONS = ["OB", "OB4", "FO3", "SK", "SSE", "FO4", "FO4_132", "FO4_139", "FO76", "SF", "SF_173"]


def sig_of(ev, clauses):
    c = ev.get("case", {})
    if not isinstance(c, dict):
        c = {}
    s = {"check": "C01", "event": ev["e"], "clauses": sorted(clauses)}
    for k in ("file", "type", "ver"):
        if k in c:
            s[k] = c[k]
    return s


def judge(ck, prop, trace, what, only_prefix=None):
    """returns parsed events; violations are grouped per (type/file, clauses)"""
    lines = [l for l in open(trace) if l.startswith('{"e":"rt"') or l.startswith('{"e":"crash"') or l.startswith('{"e":"file"') or l.startswith('{"e":"objsave"')]
    kept = trace + ".events"
    open(kept, "w").writelines(lines)
    r, viols, n = vlib.validate_trace("NifWireTrace", kept, tag=prop.lower() + "-" + what, timeout=6000, stack_mb=512, heap="16g")
    ck.add_tlc("NifWireTrace(%s)" % what, r, "round-trip machine obligations on recorded files")
    ck.cov["traces_validated_against_impl"] += n
    seen = set()
    if viols:
        want = {v["viol"]: v for v in viols}
        for i, line in enumerate(lines, 1):
            if i not in want:
                continue
            ev = json.loads(line)
            clauses = want[i]["clauses"]
            if only_prefix is not None:
                clauses = [c for c in clauses if only_prefix(c)]
                if not clauses:
                    continue
            c = ev.get("case", {})
            if not isinstance(c, dict):
                c = {"case": c}
            key = (c.get("file"), c.get("type"), c.get("ver"), tuple(sorted(clauses)))
            if key in seen:
                continue
            seen.add(key)
            small = {k: ev[k] for k in ev if k not in ("F1", "F2", "F3", "G", "f")}
            sig = sig_of(ev, clauses)
            sig["check"] = prop
            ck.reject(sig, {"clauses": clauses, "event": small}, replay={"event": ev})
    return lines


def is_c07(c):
    return c.startswith("F1:") or c.startswith("F2:") or c.startswith("G:") or c in ("HeaderParses",)


def confirm_crashes(ck, exe_asan, wd, trace):
    """crash records of the fast build are re-run under ASan: damage done while reading generator input shows up there
    in phase 0 and is discarded; the rest is kept as crash events"""
    out_lines = []
    crash_cases = []
    for line in open(trace):
        if line.startswith('{"e":"crash"'):
            crash_cases.append(json.loads(line))
        else:
            out_lines.append(line)
    confirmed = []
    for ev in crash_cases[:6]:       # (each re-run may cost its watchdog: a handful of attributed crashes is enough to report)
        c = ev["case"]
        one = os.path.join(wd, "confirm.ndjson")
        cfgf = os.path.join(wd, "confirm.cfg.ndjson")
        open(cfgf, "w").write(json.dumps({"type": c["type"], "ver": c["ver"], "mode": c["mode"], "boost": c.get("boost", -1), "ov": c.get("ov", [])}) + "\n")
        try:
            rc, out, err = vlib.run_harness(exe_asan, ["c01-run", cfgf, one], env={"VERIF_SEED": str(c.get("seed", vlib.SEED))}, timeout=45)
            again = [json.loads(l) for l in open(one)] if rc == 0 and os.path.exists(one) else [{"e": "crash"}]
        except vlib.InfraError:
            again = [{"e": "crash"}]     # the re-run itself hung: the crash record stands
        if any(e["e"] == "crash" for e in again):
            confirmed.append(ev)
    open(trace, "w").writelines(out_lines + [json.dumps(e) + "\n" for e in confirmed])
    return len(crash_cases), len(confirmed)


def run_machine(ck, tier, wd, exe, exe_asan):
    types = os.path.join(wd, "types.ndjson")
    rc, out, err = vlib.run_harness(exe, ["synth-types", types])
    if rc != 0:
        raise vlib.InfraError("synth-types failed: " + err[-500:])
    ntypes = sum(1 for _ in open(types))
    if tier == "quick":
        passes = [(VERSIONS, "0,1,2", 0, 1, 0), (["SSE", "FO4_139", "FO76", "OB"], "1,2", 12, 1, 0)]
    else:
        passes = [(VERSIONS, "0,1,2", 24, 1, 0)]
    # value sweep: which small values of which generator fields steer the layout of a block (enumerations, flags, "no string")
    discr = os.path.join(wd, "discr.ndjson")
    # (found by the current build and by the pinned reference build /verif/ref: a value whose meaning the current build
    # changed may look plain to it)
    found = []
    for who, pexe in (("cur", exe), ("ref", vlib.build("O1", repo=os.path.join(vlib.ROOT, "ref"), tag="ref-O1"))):
        part = discr + "." + who
        rc, out, err = vlib.run_harness(pexe, ["c01-probe", part, "12", "12" if tier == "quick" else "0"], timeout=3000)
        if rc != 0:
            raise vlib.InfraError("c01-probe(%s) failed: %s" % (who, err[-500:]))
        for line in open(part):
            d = json.loads(line)
            d.pop("why", None)
            found.append(json.dumps(d, sort_keys=True))
    uniq = sorted(set(found))
    with open(discr, "w") as f:
        f.write("".join(u + "\n" for u in uniq))
    ck.cov["value_sweep_settings"] = len(uniq)
    passes.append(([], "2", 0, 1, 0))
    for pi, (vers, modes, maxboost, stride, offset) in enumerate(passes):
        cfg = os.path.join(wd, "mc%d.cfg" % pi)
        open(cfg, "w").write("SPECIFICATION Spec\nCONSTANTS Versions = {%s}\n Modes = {%s}\n NBoost = %d\n Stride = %d\n Offset = %d\n UseDiscr = %s\n"
                             "INVARIANT Emit\nCHECK_DEADLOCK FALSE\n" % (", ".join('"%s"' % v for v in vers), modes, maxboost, stride, offset,
                                                                          "TRUE" if not vers else "FALSE"))
        cfgs = os.path.join(wd, "configs%d.ndjson" % pi)
        r = vlib.tlc("NifWireMC", cfg, workers=8, timeout=3000, env={"TYPES": types, "DISCR": discr}, export_to=cfgs, tag="c01-mc%d" % pi, heap="12g")
        ck.add_tlc("NifWireMC(pass %d)" % pi, r, "configuration space of the round-trip machine")
        if r.rc != 0:
            raise vlib.InfraError("NifWireMC failed")
        trace = os.path.join(wd, "synth%d.ndjson" % pi)
        rc, out, err = vlib.run_harness(exe, ["c01-run", cfgs, trace], timeout=6000)
        if rc != 0:
            raise vlib.InfraError("c01-run failed: " + err[-1500:])
        summ = json.loads(out.strip().splitlines()[-1])
        if summ["cases"] != r.exported:
            raise vlib.InfraError("c01-run executed %d of %d configurations" % (summ["cases"], r.exported))
        ncr, nconf = confirm_crashes(ck, exe_asan, wd, trace)
        summ["crashes_confirmed_under_asan"] = nconf
        ck.cov.setdefault("synth", []).append(summ)
        ck.cov["evaluations"] += summ["cases"]
        os.remove(cfgs)
        ck.cov["block_types"] = ntypes
        yield trace          # (judged by the caller before the next pass runs)


def run(tier):
    ck = vlib.Check("C01", "model_checking", tier)
    ck.cov["rule"] = ("case = one configuration (block type, version, mode, boosted field) of the round-trip machine, or one sample file; "
                      "distinct = distinct configurations; non-trivial = the generator produced an instance the library accepts")
    exe = vlib.build("O1")
    exe_asan = vlib.build("asan")
    wd = vlib.workdir("c01")
    tr = os.path.join(wd, "samples.ndjson")
    rc, out, err = vlib.run_harness(exe_asan, ["c01-samples", tr, "4" if tier == "quick" else "24"], timeout=6000)
    if rc != 0:
        raise vlib.InfraError("c01-samples failed: " + err[-1500:])
    lines = judge(ck, "C01", tr, "samples", only_prefix=lambda c: not is_c07(c))
    ck.cov["evaluations"] += len(lines)
    ck._distinct.update(("s%d" % i).encode() for i in range(len(lines)))
    for trace in run_machine(ck, tier, wd, exe, exe_asan):
        lines = judge(ck, "C01", trace, os.path.basename(trace), only_prefix=lambda c: not is_c07(c))
        nt = 0
        for l in lines:
            if l.startswith('{"e":"rt"') and '"load0":0' in l:
                nt += 1
        ck._distinct.update(("%s:%d" % (trace, i)).encode() for i in range(nt))
        if lines and len(ck.cov["samples"]) < 3:
            ev = json.loads(lines[len(lines) // 2])
            ck.sample({"configuration": ev.get("case"), "F1_blocks": [[b["type"], b["size"], b["cid"]] for b in ev.get("F1", {}).get("blocks", [])]})
    ck.assumptions += ["byte equality inside payloads is decided by content ids (hash) computed by the harness, not by TLC",
                       "instances whose generation exhausts the generator budget, or that make the reader fail on generator input, are "
                       "outside the quantifier (files the library accepts); crashes are attributed by a re-run under ASan",
                       "counts <= 3, one boosted scalar at a time"]
    return ck.finish()


def replay(path):
    d = json.load(open(path))
    print(json.dumps(d["detail"])[:1500])
    return 1
