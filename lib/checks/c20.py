"""C20 - transform algebra and bounding spheres obey their geometric laws.

 A. XformMC: TLC enumerates an exact rational lattice (24 axis rotations x Pythagorean rotations, dyadic scales, integer
    translations; all invertible matrices over {-1,0,1}; point sets on a grid), checks each law exactly on the model and
    exports the cases with exact expected values; the harness runs InverseTransform, ComposeTransforms, ApplyTransform,
    ToMatrix/Matrix4::Inverse, Matrix3::Invert/Determinant, RotMatToVec/RotVecToMat, CalcAverage*/CalcMedian*, BoundingSphere;
    results that differ from the expectation beyond float tolerance, and a sample of the rest, are validated by XformTrace.
 B. seeded random rotation vectors (incl. angles next to 0, pi/3 and pi), random point sets (duplicates, collinear, off-origin
    clusters) and shape-bounds edit histories (create, UpdateBounds, SetVerts, UpdateBounds/Optimize) in six versions are
    logged and validated by XformTrace as integer inequalities."""
import json
import os

import vlib

FAMILIES = ["inv", "comp", "mat", "rot", "sphere"]


def judge(ck, trace, what):
    lines = [l for l in open(trace) if '"e":"stat"' not in l]
    kept = trace + ".events"
    open(kept, "w").writelines(lines)
    r, viols, n = vlib.validate_trace("XformTrace", kept, tag="c20-" + what, timeout=3000)
    ck.add_tlc("XformTrace(%s)" % what, r, "laws on implementation results")
    ck.cov["traces_validated_against_impl"] += n
    if viols:
        evs = [json.loads(l) for l in lines]
        seen = set()
        for v in viols:
            ev = evs[v["viol"] - 1]
            key = (ev["e"], ev.get("c", {}).get("k"), tuple(sorted(v["clauses"])), ev.get("ver"), ev.get("step"))
            if key in seen:
                continue
            seen.add(key)
            sig = {"check": "C20", "event": ev["e"], "kind": ev.get("c", {}).get("k"), "clauses": sorted(v["clauses"]), "ver": ev.get("ver"), "step": ev.get("step")}
            ck.reject(sig, {"clauses": v["clauses"], "event": ev}, replay={"event": ev})
    return lines


def run(tier):
    ck = vlib.Check("C20", "model_checking", tier)
    ck.cov["rule"] = ("case = one lattice case (transform / pair+vector / matrix / rotation / point set) or one random record; each is "
                      "evaluated on the real functions and compared with the exact rational model; distinct = distinct inputs")
    exe = vlib.build("asan")
    wd = vlib.workdir("c20")
    rnd = os.path.join(wd, "random.ndjson")
    rc, out, err = vlib.run_harness(exe, ["c20-random", rnd, "800" if tier == "quick" else "8000"], timeout=3000)
    if rc != 0:
        raise vlib.InfraError("c20-random failed: " + err[-2000:])
    lines = judge(ck, rnd, "random")
    ck.cov["evaluations"] += len(lines)
    ck._distinct.update(("r%d" % i).encode() for i in range(len(lines)))
    ck.sample({"random_rotvec": json.loads(lines[0])})
    for fam in FAMILIES:
        cfg = os.path.join(wd, fam + ".cfg")
        open(cfg, "w").write("SPECIFICATION Spec\nCONSTANTS Family = \"%s\"\n Export = TRUE\n Quick = %s\nINVARIANT LawsHold\nINVARIANT Emit\nCHECK_DEADLOCK FALSE\n"
                             % (fam, "TRUE" if tier == "quick" else "FALSE"))
        cases = os.path.join(wd, fam + ".cases.ndjson")
        r = vlib.tlc("XformMC", cfg, workers=12, timeout=6000, export_to=cases, tag="c20-" + fam, heap="16g")
        ck.add_tlc("XformMC(%s)" % fam, r, "law checked exactly on every lattice case")
        if r.rc != 0:
            raise vlib.InfraError("XformMC %s: law violated in the exact model (%s)" % (fam, r.violated))
        if r.exported != r.distinct:
            raise vlib.InfraError("XformMC %s exported %d of %d" % (fam, r.exported, r.distinct))
        outp = os.path.join(wd, fam + ".replay.ndjson")
        rc, out, err = vlib.run_harness(exe, ["c20-replay", cases, outp, str(max(1, r.exported // 400))], timeout=6000)
        if rc != 0:
            raise vlib.InfraError("c20-replay failed: " + err[-2000:])
        summ = json.loads(out.strip().splitlines()[-1])
        ck.cov.setdefault("replay", {})[fam] = summ
        ck.cov["evaluations"] += summ["runs"]
        ck._distinct.update(("%s%d" % (fam, i)).encode() for i in range(summ["runs"]))
        lines = judge(ck, outp, fam)
        if fam != "sphere":
            ck.cov["traces_validated_against_impl"] += summ["runs"] - summ["mismatch"]
        with open(cases) as f:
            ck.sample({"lattice_case": json.loads(f.readline())})
        os.remove(cases)
    ck.cov["exhaustive"] = True
    ck.assumptions += ["floats are projected to integers scaled by 1000; tolerance 3e-3 absolute (2e-4 relative in the harness pre-filter)",
                       "the lattice exercises formula structure (order, transposition, signs, branch selection), not floating-point error analysis",
                       "rotation vector round trip is required below a half turn only"]
    return ck.finish()


def replay(path):
    d = json.load(open(path))
    print(json.dumps(d["detail"])[:1500])
    return 1
