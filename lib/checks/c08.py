"""C08 - the wire format stays compatible with the reference release.

 Two programs: `ref` = the vendored snapshot /verif/ref (pinned sources + the add-only hooks), `cur` = /repo's working tree; the
 same harness source is compiled against each. Each build synthesises normal-form files for the registered block types x 11
 versions x 3 modes with the same seeds; every file written by either build, and the 26 samples, is loaded and raw-re-saved by
 both builds; TLC (NifWire!TwoBuildViol) requires equal load results, equal re-encodings (tables, sizes, per-block hashes,
 whole-file hash), that each build consumes every block exactly, and that files in normal form re-encode to identical bytes."""
import json
import os
import shutil

import vlib


def run(tier):
    ck = vlib.Check("C08", "translation_validation", tier)
    ck.cov["rule"] = "case = one file (written by ref, by cur, or a sample) re-saved by both builds; distinct = distinct files"
    cur = vlib.build("O1")
    ref = vlib.build("O1", repo=os.path.join(vlib.ROOT, "ref"), tag="ref-O1")
    wd = vlib.workdir("c08")
    stride, offset = (3, vlib.SEED) if tier == "quick" else (1, 0)
    # value sweep (see C01): generator field values that steer a block's layout, found with the current build
    discr = os.path.join(wd, "discr.ndjson")
    # (by both builds: a value whose section one build lost looks plain to that build)
    found = []
    for who, exe in (("cur", cur), ("ref", ref)):
        part = discr + "." + who
        rc, out, err = vlib.run_harness(exe, ["c01-probe", part, "12", "12" if tier == "quick" else "0"], timeout=3000)
        if rc != 0:
            raise vlib.InfraError("c01-probe(%s) failed: %s" % (who, err[-500:]))
        for l in open(part):
            d = json.loads(l)
            d.pop("why", None)
            found.append(json.dumps(d, sort_keys=True))
    uniq = sorted(set(found))
    with open(discr, "w") as f:
        f.write("".join(u + "\n" for u in uniq))
    ck.cov["value_sweep_settings"] = len(uniq)
    lists = {}
    for who, exe in (("ref", ref), ("cur", cur)):
        d = os.path.join(wd, who)
        shutil.rmtree(d, ignore_errors=True)
        rc, out, err = vlib.run_harness(exe, ["c08-gen", d, str(stride), str(offset), discr], timeout=6000)
        if rc != 0:
            raise vlib.InfraError("c08-gen(%s) failed: %s" % (who, err[-1000:]))
        lists[who] = sorted(os.path.join(d, f) for f in os.listdir(d) if f.endswith(".nif"))
    samples = sorted(os.path.join(vlib.REPO, "tests", "input", f) for f in os.listdir(os.path.join(vlib.REPO, "tests", "input")) if f.endswith(".nif"))
    allfiles = [(f, "ref") for f in lists["ref"]] + [(f, "cur") for f in lists["cur"]] + [(f, "sample") for f in samples]
    lst = os.path.join(wd, "files.txt")
    open(lst, "w").write("\n".join(f for f, _ in allfiles) + "\n")
    res = {}
    for who, exe in (("ref", ref), ("cur", cur)):
        outp = os.path.join(wd, "resave_%s.ndjson" % who)
        rc, out, err = vlib.run_harness(exe, ["c08-resave", lst, outp], timeout=6000)
        if rc != 0:
            raise vlib.InfraError("c08-resave(%s) failed: %s" % (who, err[-1000:]))
        res[who] = {json.loads(l)["file"]: json.loads(l) for l in open(outp)}
    # configurations on which the reference build is not consistent with itself: it wrote the file (normal form) and
    # re-encodes it differently. Decided from the reference build alone; both twins (written by ref / by cur) are discards.
    ref_broken = set()
    for path, writer in allfiles:
        a = res["ref"].get(path)
        if writer == "ref" and a is not None and "crash" not in a and a.get("rc") == 0 and "out" in a:
            if a["out"]["whole"] != a["in"]["whole"] or (a["in"].get("hs") and a["out"]["sizes"] != a["in"]["sizes"]):
                ref_broken.add(os.path.basename(path))
    ck.cov["reference_not_self_consistent"] = sorted(ref_broken)[:40]
    ck.cov["reference_not_self_consistent_count"] = len(ref_broken)
    tr = os.path.join(wd, "twobuild.ndjson")
    n = 0
    with open(tr, "w") as f:
        for path, writer in allfiles:
            a, b = res["ref"].get(path), res["cur"].get(path)
            if a is None or b is None:
                continue
            if "crash" in a or "crash" in b:
                f.write(json.dumps({"e": "crash", "file": os.path.basename(path), "writer": writer, "ref": a.get("crash") or "", "cur": b.get("crash") or ""}) + "\n")
            else:
                f.write(json.dumps({"e": "twobuild", "file": os.path.basename(path), "writer": writer, "ref": a, "cur": b,
                                    "refBroken": os.path.basename(path) in ref_broken}) + "\n")
            n += 1
    r, viols, nn = vlib.validate_trace("NifWireTrace", tr, tag="c08", timeout=6000, stack_mb=256, heap="12g")
    ck.add_tlc("NifWireTrace(twobuild)", r, "TwoBuildViol on every file")
    ck.cov["programs"] = 2
    ck.cov["disagreements_checked"] = nn
    ck.cov["traces_validated_against_impl"] = nn
    ck.cov["evaluations"] = nn
    ck._distinct.update(("f%d" % i).encode() for i in range(nn))
    ck.cov["files_written_by"] = {"ref": len(lists["ref"]), "cur": len(lists["cur"]), "samples": len(samples)}
    lines = open(tr).readlines()
    seen = set()
    for v in viols:
        ev = json.loads(lines[v["viol"] - 1])
        typ = ev["file"].split("__")[0]
        ver = ev["file"].split("__")[1] if "__" in ev["file"] else ""
        key = (typ, tuple(sorted(v["clauses"])))
        if key in seen:
            continue
        seen.add(key)
        small = {"file": ev["file"], "writer": ev.get("writer")}
        if ev["e"] == "twobuild":
            small["rc"] = [ev["ref"]["rc"], ev["cur"]["rc"]]
            if "out" in ev["ref"] and "out" in ev["cur"]:
                small["sizes_ref_cur"] = [ev["ref"]["out"]["sizes"], ev["cur"]["out"]["sizes"]]
        ck.reject({"check": "C08", "type": typ, "clauses": sorted(v["clauses"])}, {"clauses": v["clauses"], "event": small, "ver": ver}, replay={"event": ev})
    if lines:
        ev = json.loads(lines[len(lines) // 2])
        try:
            ck.sample({"file": ev["file"], "writer": ev.get("writer"), "sizes": ev.get("cur", {}).get("out", {}).get("sizes")})
        except (KeyError, IndexError, TypeError):
            pass     # (the first record is a crash record: nothing to sample)
    for who in ("ref", "cur"):
        shutil.rmtree(os.path.join(wd, who), ignore_errors=True)
    ck.assumptions += ["the reference release is the vendored snapshot /verif/ref of the pinned sources (commit 32497ec) plus the add-only hook patch",
                       "block payload equality is hash equality (128-bit, computed by the same harness code in both builds)"]
    return ck.finish()


def replay(path):
    d = json.load(open(path))
    print(json.dumps(d["detail"])[:1500])
    return 1
