"""C02 - saving is repeatable and never alters the in-memory model.

 The repeat-save machine of NifWire.tla: one live model is saved three times (raw options, and default options after a
 normalising first default save) with the full query battery before and after each save. The harness runs it on the 26 sample
 files (fresh and after a seeded sequence of block-graph edits) and on synthesised instances of the registered block types in
 seven versions; TLC judges every record: the save made before any query equals the one made after the battery, files 2 and 3 equal file 1 after canonical string-table renumbering (every index
 compared through the string it denotes), and the battery answers identically before and after every save."""
import json
import re
import os

import vlib


def run(tier):
    ck = vlib.Check("C02", "model_checking", tier)
    ck.cov["rule"] = ("case = (input model, fresh|edited, save option); three consecutive saves and four query batteries each; distinct = "
                      "distinct (input, variant, option)")
    exe = vlib.build("O1")
    wd = vlib.workdir("c02")
    tr = os.path.join(wd, "resave.ndjson")
    rc, out, err = vlib.run_harness(exe, ["c02-resave", tr, "2" if tier == "quick" else "1", "4"], timeout=7000)
    if rc != 0:
        raise vlib.InfraError("c02-resave failed: " + err[-1500:])
    summ = json.loads(out.strip().splitlines()[-1])
    ck.cov["runs"] = summ
    lines = [l for l in open(tr) if l.startswith('{"e":"resave"') or l.startswith('{"e":"crash"')]
    kept = tr + ".events"
    open(kept, "w").writelines(lines)
    r, viols, n = vlib.validate_trace("NifWireTrace", kept, tag="c02", timeout=6000, stack_mb=512, heap="16g")
    ck.add_tlc("NifWireTrace(resave)", r, "repeat-save machine on recorded executions")
    ck.cov["traces_validated_against_impl"] += n
    ck.cov["evaluations"] += n
    ck._distinct.update(("r%d" % i).encode() for i in range(n))
    seen = set()
    for v in viols:
        ev = json.loads(lines[v["viol"] - 1])
        c = ev.get("case", {})
        key = (c.get("file"), c.get("type"), c.get("ver"), ev.get("opt"), tuple(sorted(v["clauses"])))
        if key in seen:
            continue
        seen.add(key)
        small = {k: ev[k] for k in ev if k not in ("Sfirst", "S0", "S1", "S2", "S3", "q0", "q1", "q2", "q3", "qTwin")}
        if "qTwin" in ev and "q0" in ev:
            small["answers_unlike_the_unsaved_twin"] = sorted(k for k in ev["q0"] if ev["q0"].get(k) != ev["qTwin"].get(k))[:12]
        if "q0" in ev:
            small["queries_changed"] = sorted({k for k in ev["q0"] if not (ev["q0"].get(k) == ev["q1"].get(k) == ev["q2"].get(k) == ev["q3"].get(k))})[:12]
            f1, f2 = ev["S1"], ev["S2"]
            small["first_block_diff_1_2"] = next((i for i, (a, b) in enumerate(zip(f1["blocks"], f2["blocks"])) if (a["type"], a["size"], a["cid"], a["wrefs"]) != (b["type"], b["size"], b["cid"], b["wrefs"])), None)
            small["nblocks"] = [ev["S0"]["nblocks"], f1["nblocks"], f2["nblocks"], ev["S3"]["nblocks"]]
            small["first_block_diff_0_1"] = next((i for i, (a, b) in enumerate(zip(ev["S0"]["blocks"], f1["blocks"])) if (a["type"], a["size"], a["cid"], a["wrefs"]) != (b["type"], b["size"], b["cid"], b["wrefs"])), None)
        sig = {"check": "C02", "event": ev["e"], "clauses": sorted(v["clauses"]), "opt": ev.get("opt"), "variant": ev.get("variant")}
        sig["stripPartitions"] = bool(ev.get("stripPartitions"))
        if "answers_unlike_the_unsaved_twin" in small:
            sig["unlike"] = sorted({re.sub(r"^shape\d+\.", "shape.", k) for k in small["answers_unlike_the_unsaved_twin"]})
        for k in ("file", "type", "ver"):
            if k in c:
                sig[k] = c[k]
        ck.reject(sig, {"clauses": v["clauses"], "event": small}, replay={"event": ev})
    if lines:
        ev = json.loads(lines[0])
        ck.sample({"case": ev.get("case"), "opt": ev.get("opt"), "variant": ev.get("variant"), "queries": sorted(ev.get("q0", {}).keys())[:10]})
    ck.assumptions += ["for the default options the measurement starts after one normalising default save (block indices returned by queries move when "
                       "blocks are sorted); what the first default save may change is C04's",
                       "bounds are recomputed before the first battery", "string-table order may differ between saves; indices are compared through their strings"]
    return ck.finish()


def replay(path):
    d = json.load(open(path))
    print(json.dumps(d["detail"])[:1500])
    return 1
