"""C07 - saved header tables describe the written file exactly.

 Every file written during the round-trip machine of C01 (samples and synthesised configurations: F1, F2, every G) and every
 file written after seeded edit sequences (block-graph edits, vertex deletion, LE<->SE conversion, shape cloning, fresh
 blocks whose size entry starts at 0, same-type replacement; raw and default saves) is read by the independent header
 parser and a walk over the size table; TLC evaluates NifWire!WellFormedViol on the result: table lengths, type indices in
 range, no unused / duplicate type name, the walk lands on the 8-byte footer at the end of the file, sizes sum to the file
 length, maximum string length, strings once (no unknown blocks), every string index stored in a block (located through
 hook H3) is empty or inside the table."""
import json
import os

import vlib
from checks import c01


def run(tier):
    ck = vlib.Check("C07", "model_checking", tier)
    ck.cov["rule"] = ("case = one file written by the library (after a round trip or an edit sequence); distinct = distinct "
                      "(input, edit history, save option); every one is parsed independently and judged")
    exe = vlib.build("O1")
    exe_asan = vlib.build("asan")
    wd = vlib.workdir("c07")
    # edit sequences
    tr = os.path.join(wd, "edits.ndjson")
    rc, out, err = vlib.run_harness(exe, ["c07-edits", tr, "6" if tier == "quick" else "14", "3" if tier == "quick" else "1"], timeout=6000)
    if rc != 0:
        raise vlib.InfraError("c07-edits failed: " + err[-1500:])
    summ = json.loads(out.strip().splitlines()[-1])
    ck.cov["edit_sequences"] = summ
    lines = c01.judge(ck, "C07", tr, "edits")
    nfiles = sum(1 for l in lines if l.startswith('{"e":"file"'))
    ck.cov["evaluations"] += nfiles
    ck._distinct.update(("e%d" % i).encode() for i in range(nfiles))
    if lines:
        ev = json.loads(lines[len(lines) // 3])
        try:
            ck.sample({"case": ev.get("case"), "how": ev.get("how"), "ops": ev.get("ops"), "tables": {k: ev["f"][k] for k in ("nblocks", "types", "tidx", "sizes", "hdrLen", "len", "end", "footer")}})
        except (KeyError, IndexError, TypeError):
            pass     # (the first record is a crash record: nothing to sample)
    # files of the round-trip machine
    tr = os.path.join(wd, "samples.ndjson")
    rc, out, err = vlib.run_harness(exe, ["c01-samples", tr, "2" if tier == "quick" else "12"], timeout=6000)
    if rc != 0:
        raise vlib.InfraError("c01-samples failed: " + err[-1500:])
    lines = c01.judge(ck, "C07", tr, "samples", only_prefix=c01.is_c07)
    ck.cov["evaluations"] += 6 * len(lines)
    ck._distinct.update(("s%d" % i).encode() for i in range(6 * len(lines)))
    for trace in c01.run_machine(ck, tier, wd, exe, exe_asan):
        lines = c01.judge(ck, "C07", trace, os.path.basename(trace), only_prefix=c01.is_c07)
        n = sum(1 for l in lines if l.startswith('{"e":"rt"') and '"load1":0' in l)
        ck._distinct.update(("%s:%d" % (trace, i)).encode() for i in range(n * 6))
        ck.cov["evaluations"] += n * 5
    strings_machine(ck, tier, wd, exe)
    objects_machine(ck, tier, wd, exe)
    ck.assumptions += ["string indices inside payloads are located by hook H3 (NiStringRef::Write) while Put()-ing a clone of the model's block",
                       "files of versions without a size table (Oblivion) are walked with the sizes measured by Put()",
                       "edit operations that crash on synthesised models are other properties' concern and are discarded here"]
    return ck.finish()


def objects_machine(ck, tier, wd, exe):
    """A NifFile object as a container (NifObj.tla): TLC enumerates every history of up to L calls out of {load A / B / U (A with
    one type unknown), create SSE / OB, add a node, assign from / CopyFrom a donor object, clear, raw save, reload the donor};
    at every save the harness builds a fresh object with the content the machine says X holds (load or create, then the nodes)
    and both must write the same bytes (also with the default options at the end); the written file is judged by
    NifWire!WellFormedViol."""
    L = 4 if tier == "quick" else 5
    cfg = os.path.join(wd, "objects_mc.cfg")
    open(cfg, "w").write("SPECIFICATION Spec\nCONSTANTS L = %d\n Export = TRUE\nINVARIANT Emit\nCHECK_DEADLOCK FALSE\n" % L)
    cases = os.path.join(wd, "objects_cases.ndjson")
    r = vlib.tlc("NifObjMC", cfg, workers=8, timeout=3000, export_to=cases, tag="c07-objects-mc", heap="8g")
    ck.add_tlc("NifObjMC(L=%d)" % L, r, "call histories on one object and its donor")
    if r.rc != 0 or r.exported != r.distinct:
        raise vlib.InfraError("NifObjMC: rc=%d exported %d of %d" % (r.rc, r.exported, r.distinct))
    tr = os.path.join(wd, "objects_trace.ndjson")
    rc, out, err = vlib.run_harness(exe, ["c07-objects", cases, tr], timeout=6000)
    if rc != 0:
        raise vlib.InfraError("c07-objects failed: " + err[-1500:])
    lines = c01.judge(ck, "C07", tr, "objects")
    nsave = sum(1 for x in lines if x.startswith('{"e":"objsave"'))
    ncrash = sum(1 for x in lines if x.startswith('{"e":"crash"'))
    if nsave + ncrash * 200 * L < r.exported:
        raise vlib.InfraError("c07-objects judged %d saves for %d histories" % (nsave, r.exported))
    ck.cov["evaluations"] += nsave
    ck._distinct.update(("ob%d" % i).encode() for i in range(nsave))
    ck.cov["object_histories"] = {"L": L, "histories": r.exported, "saves_judged": nsave}
    os.remove(cases)


def strings_machine(ck, tier, wd, exe):
    """The header string table as a state machine (StringTable.tla): TLC checks the transcription of AddOrFindStringId /
    FillStringRefs / UpdateHeaderStrings against the statements (indices inside the table, index designates the text, strings
    once, none unused, true maximum length; with unknown blocks the table only grows) on every small table x indices x op
    sequence, exports the cases, the harness runs them on a real NiHeader and TLC evaluates the same statements on the
    recorded states and compares them with the transcription's (exact conformance; a difference is model drift)."""
    configs = [(2, 1, 2)] if tier == "quick" else [(2, 2, 2), (3, 1, 2)]
    for R, maxtab, L in configs:
        cfg = os.path.join(wd, "strings_mc.cfg")
        open(cfg, "w").write("SPECIFICATION Spec\nCONSTANTS R = %d\n MaxTab = %d\n L = %d\n Export = TRUE\nINVARIANT DesignOK\nINVARIANT Emit\nCHECK_DEADLOCK FALSE\n" % (R, maxtab, L))
        cases = os.path.join(wd, "strings_cases.ndjson")
        r = vlib.tlc("StringTableMC", cfg, workers=8, timeout=3000, export_to=cases, tag="c07-strings-mc", heap="8g")
        ck.add_tlc("StringTableMC(R=%d,MaxTab=%d,L=%d)" % (R, maxtab, L), r, "string-table machine: transcription satisfies its statements on every case")
        if r.rc != 0 or r.exported != r.distinct:
            raise vlib.InfraError("StringTableMC: rc=%d exported %d of %d" % (r.rc, r.exported, r.distinct))
        tr = os.path.join(wd, "strings_trace.ndjson")
        rc, out, err = vlib.run_harness(exe, ["c07-strings", cases, tr], timeout=3000)
        if rc != 0:
            raise vlib.InfraError("c07-strings failed: " + err[-1500:])
        r2, viols, n = vlib.validate_trace("StringTableTrace", tr, tag="c07-strings", timeout=3000, stack_mb=256)
        ck.add_tlc("StringTableTrace", r2, "statements on the recorded states of a real NiHeader + exact conformance")
        lines = open(tr).readlines()
        nstr = sum(1 for x in lines if x.startswith('{"e":"strings"'))
        if nstr + sum(1 for x in lines if x.startswith('{"e":"crash"')) * 500 < r.exported:
            raise vlib.InfraError("c07-strings executed %d of %d cases" % (nstr, r.exported))
        ck.cov["evaluations"] += n
        ck.cov["traces_validated_against_impl"] += n
        ck._distinct.update(("st%d:%d:%d" % (R, maxtab, i)).encode() for i in range(n))
        seen = set()
        for v in viols:
            ev = json.loads(lines[v["viol"] - 1])
            key = tuple(sorted(v["clauses"]))
            if key in seen:
                continue
            seen.add(key)
            ck.reject({"check": "C07", "machine": "strings", "clauses": sorted(v["clauses"])}, {"clauses": v["clauses"], "event": ev}, replay={"event": ev})
        for x in r2.records:
            if isinstance(x, dict) and "drift" in x:
                ck.note_drift({"what": x.get("what"), "case": json.loads(lines[x["drift"] - 1]).get("c")})
                break
        if lines:
            ck.sample({"string_table_case": json.loads(lines[len(lines) // 2]).get("c")})
        os.remove(cases)


def replay(path):
    d = json.load(open(path))
    print(json.dumps(d["detail"])[:1500])
    return 1
