"""C03 - blocks of unknown type survive load and save untouched.

 NifUnknownMC: TLC enumerates, for every sample file that carries block sizes, the sets U of block types to relabel as
 unknown (every non-empty subset for files of <= 6 types, else all singletons, complements of singletons and the full set).
 The harness relabels those types in the file bytes (same-length rename inside the type table - no library code), loads the
 file, saves it with the default and the raw options, and logs input and output as the independent reader sees them
 (unmasked content ids). TLC judges NifWire!UnknownViol: same block count, order and type names; relabelled blocks keep size
 and payload; the input string table is a prefix of the output's; the output is WellFormed."""
import json
import os

import vlib


def run(tier):
    ck = vlib.Check("C03", "model_checking", tier)
    ck.cov["rule"] = "case = (sample file, set of relabelled block types, save option); distinct = distinct cases; all are executed and judged"
    exe = vlib.build("O1")
    wd = vlib.workdir("c03")
    tables = os.path.join(wd, "tables.ndjson")
    rc, out, err = vlib.run_harness(exe, ["c03-tables", tables])
    if rc != 0:
        raise vlib.InfraError("c03-tables failed: " + err[-1000:])
    cases = os.path.join(wd, "cases.ndjson")
    r = vlib.tlc("NifUnknownMC", "NifUnknownMC.cfg", workers=4, env={"TYPETABLES": tables}, export_to=cases, tag="c03-mc", timeout=1200)
    ck.add_tlc("NifUnknownMC", r, "subsets of block types per file")
    if r.rc != 0 or r.exported != r.distinct:
        raise vlib.InfraError("NifUnknownMC: rc=%d exported %d of %d" % (r.rc, r.exported, r.distinct))
    tr = os.path.join(wd, "run.ndjson")
    rc, out, err = vlib.run_harness(exe, ["c03-run", cases, tr], timeout=6000)
    if rc != 0:
        raise vlib.InfraError("c03-run failed: " + err[-1000:])
    ck.cov["runs"] = json.loads(out.strip().splitlines()[-1])
    rr, viols, n = vlib.validate_trace("NifWireTrace", tr, tag="c03", timeout=6000, stack_mb=512, heap="16g")
    ck.add_tlc("NifWireTrace(unknown)", rr, "UnknownViol + WellFormed on recorded executions")
    ck.cov["traces_validated_against_impl"] += n
    ck.cov["evaluations"] += n
    ck._distinct.update(("u%d" % i).encode() for i in range(n))
    if viols:
        lines = open(tr).readlines()
        seen = set()
        for v in viols:
            ev = json.loads(lines[v["viol"] - 1])
            key = (ev.get("file"), ev.get("opt"), tuple(sorted(v["clauses"])))
            if key in seen:
                continue
            seen.add(key)
            small = {k: ev[k] for k in ev if k not in ("f", "g")}
            ck.reject({"check": "C03", "clauses": sorted(v["clauses"]), "input": ev.get("file"), "opt": ev.get("opt")},
                      {"clauses": v["clauses"], "event": small}, replay={"event": ev})
    with open(cases) as f:
        ck.sample({"case": json.loads(f.readline())})
    ck.cov["exhaustive"] = True
    ck.assumptions += ["relabelling = same-length rename of type-table entries in the bytes (done by the harness' own header parser)",
                       "only files with a size table (20.2.0.5+) can carry unknown blocks"]
    return ck.finish()


def replay(path):
    d = json.load(open(path))
    print(json.dumps(d["detail"])[:1500])
    return 1
