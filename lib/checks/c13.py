"""C13 - geometry written through the API is what is read back, in every version.

 MeshMC (family setget): TLC enumerates every history of up to MaxT setter calls over {SetVerts (same / different count), SetUvs,
 SetNormals, SetTangents, SetBitangents, SetColors, SetEyeData, SetTriangles, save+reload} x three value variants. The harness
 executes each history on a shape created with CreateShapeFromData in OB, FO3, SK, SSE, FO4 and FO76 and logs every step with
 what every getter returns before and after (per-vertex content ids); values are chosen to be exact under the storage
 quantisation of each format. TLC judges MeshOps!SetGetViol (getter = given values, every other array untouched, vertex
 count and triangles kept, ShapeConsistent) and SameAfterReloadViol. Limit meshes (1, 2, 65534, 65535 vertices; 65535 / 65536
 / 70000 triangles) are created, read back and reloaded."""
import json
import os

import vlib
from checks import c09


def run(tier):
    ck = vlib.Check("C13", "model_checking", tier)
    ck.cov["rule"] = "case = (setter history, version); every step of every history is executed and judged; distinct = distinct (history, version, step)"
    exe = vlib.build("O1")
    wd = vlib.workdir("c13")
    tr = os.path.join(wd, "limits.ndjson")
    rc, out, err = vlib.run_harness(exe, ["c13-limits", tr], timeout=6000)
    if rc != 0:
        raise vlib.InfraError("c13-limits failed: " + err[-1500:])
    lines = c09.judge(ck, "C13", tr, "limits")
    ck._distinct.update(("l%d" % i).encode() for i in range(len(lines)))
    cfg = os.path.join(wd, "mc.cfg")
    open(cfg, "w").write("SPECIFICATION Spec\nCONSTANTS Family = \"setget\"\n MaxV = 4\n MaxT = %d\n Sample = 1\n Phase = 0\nINVARIANT Emit\nCHECK_DEADLOCK FALSE\n" % (2 if tier == "quick" else 3))
    cases = os.path.join(wd, "cases.ndjson")
    r = vlib.tlc("MeshMC", cfg, workers=12, timeout=6000, export_to=cases, tag="c13-mc", heap="16g")
    ck.add_tlc("MeshMC(setget)", r, "setter histories")
    if r.rc != 0 or r.exported != r.distinct:
        raise vlib.InfraError("MeshMC setget: rc=%d exported %d of %d" % (r.rc, r.exported, r.distinct))
    tr = os.path.join(wd, "cases.trace.ndjson")
    rc, out, err = vlib.run_harness(exe, ["c13-cases", cases, tr], timeout=7000)
    if rc != 0:
        raise vlib.InfraError("c13-cases failed: " + err[-1500:])
    lines = c09.judge(ck, "C13", tr, "histories")
    ck._distinct.update(("h%d" % i).encode() for i in range(len(lines)))
    # every geometry kind the sample files hold: single setters and the composite fill on up to three shapes per file
    tr = os.path.join(wd, "samples.trace.ndjson")
    rc, out, err = vlib.run_harness(exe, ["c13-samples", tr], timeout=7000)
    if rc != 0:
        raise vlib.InfraError("c13-samples failed: " + err[-1500:])
    lines = c09.judge(ck, "C13", tr, "samples")
    ck._distinct.update(("s%d" % i).encode() for i in range(len(lines)))
    with open(cases) as f:
        for i, line in enumerate(f):
            if i == r.exported // 2:
                ck.sample({"history": json.loads(line)["c"]["h"], "versions": ["OB", "FO3", "SK", "SSE", "FO4", "FO76"]})
    os.remove(cases)
    ck.cov["exhaustive"] = True
    ck.assumptions += ["values are exact under the storage quantisation (normal/tangent components +-1, colours 0/1, UVs multiples of 1/8)",
                       "setters are called with arrays of the current vertex count (their documented precondition); a different count is offered to SetVertsForShape only",
                       "the companion array of tangents/bitangents may be created by the other's setter",
                       "after save + reload the comparison starts from the first reloaded model (storage precision reached)"]
    return ck.finish()


def replay(path):
    d = json.load(open(path))
    print(json.dumps(d["detail"])[:1500])
    return 1
