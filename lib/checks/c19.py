"""C19 - texture path clean-up is canonical and idempotent.

 A. TexPathMC: TLC enumerates every token string up to MaxLen over the 12-token alphabet x needsPrefix x terrain, evaluates the
    stage-by-stage transcription of the clean-up (Clean_Exact), the canonical-form clauses and idempotence on it, and exports
    each case with the transcription's result and its violated clauses. The harness replays every case through every slot kind
    (texture set, effect shader's five paths, NiSourceTexture via NiTexturingProperty) by explicit TrimTexturePaths and by
    Save+Load (the terrain flag is a load option); results that differ from the transcription, cases where the transcription
    itself violates a clause, and a sample of the rest are judged by TexPathTrace (CanonicalViol, Idempotent, OnlyRemovesPrefix).
 B. seeded random byte strings up to 4 KiB (non-UTF-8, drive/UNC prefixes) are cleaned by the real code, tokenised and
    validated by the same trace spec."""
import json
import os

import vlib

ALPHA = '{"BS", "FS", "SP", "NL", "DOT", "COL", "a", "b", "T", "TU", "D", "DD"}'


def sig_of(ev, clauses):
    if ev["e"] == "crash":
        return {"check": "C19", "event": "crash", "why": ev.get("why")}
    return {"check": "C19", "event": "clean", "clauses": sorted(clauses), "np": ev["np"], "ter": ev["ter"], "p": ev["p"] if len(ev["p"]) <= 8 else None}


def judge(ck, trace, what):
    lines = [l for l in open(trace) if '"e":"stat"' not in l]
    kept = trace + ".events"
    open(kept, "w").writelines(lines)
    r, viols, n = vlib.validate_trace("TexPathTrace", kept, tag="c19-" + what, timeout=3000, stack_mb=512)
    ck.add_tlc("TexPathTrace(%s)" % what, r, "canonical form / idempotence / suffix property on implementation results")
    ck.cov["traces_validated_against_impl"] += n
    classes = {}
    if viols:
        evs = [json.loads(l) for l in lines]
        for v in viols:
            ev = evs[v["viol"] - 1]
            # one report per (clauses, flags, kind) class with the shortest input as the witness
            key = (tuple(sorted(v["clauses"])), ev.get("np"), ev.get("ter"))
            if key not in classes or len(ev.get("p", [])) < len(classes[key][0].get("p", [])):
                classes[key] = (ev, v["clauses"])
    for key, (ev, clauses) in sorted(classes.items(), key=lambda kv: str(kv[0])):
        ck.reject(sig_of(ev, clauses), {"clauses": clauses, "event": ev}, replay={"event": ev})
    return lines


def run(tier):
    ck = vlib.Check("C19", "model_checking", tier)
    ck.cov["rule"] = ("case = (token string, needsPrefix, terrain) enumerated by TLC, run through each applicable slot kind and entry point; "
                      "plus seeded random byte strings; distinct = distinct (string, flags, kind, entry point)")
    exe = vlib.build("asan")
    exe_fast = vlib.build("O1")
    wd = vlib.workdir("c19")
    rnd = os.path.join(wd, "random.ndjson")
    rc, out, err = vlib.run_harness(exe, ["c19-random", rnd, "600" if tier == "quick" else "6000"], timeout=3000)
    if rc != 0:
        raise vlib.InfraError("c19-random failed: " + err[-2000:])
    lines = judge(ck, rnd, "random")
    ck.cov["evaluations"] += len(lines)
    ck._distinct.update(("r%d" % i).encode() for i in range(len(lines)))
    if lines:
        ev = json.loads(lines[0])
        ck.sample({"random": {"p": ev.get("p", [])[:20], "q": ev.get("q", [])[:20], "kind": ev.get("kind"), "via": ev.get("via")}})
    maxlen = 4 if tier == "quick" else 5
    cfg = os.path.join(wd, "mc.cfg")
    open(cfg, "w").write("SPECIFICATION Spec\nCONSTANTS MaxLen = %d\n Export = TRUE\n Alphabet = %s\nINVARIANT Emit\nCHECK_DEADLOCK FALSE\n" % (maxlen, ALPHA))
    cases = os.path.join(wd, "cases.ndjson")
    r = vlib.tlc("TexPathMC", cfg, workers=12, timeout=6000, export_to=cases, tag="c19-mc", heap="16g", extra=["-maxSetSize", "20000000"])
    ck.add_tlc("TexPathMC(MaxLen=%d)" % maxlen, r, "transcription + canonical clauses + idempotence on every token string")
    if r.rc != 0 or r.exported != r.distinct:
        raise vlib.InfraError("TexPathMC: rc=%d exported %d of %d" % (r.rc, r.exported, r.distinct))
    nviol = 0
    with open(cases) as f:
        for i, line in enumerate(f):
            if '"viol":[]' not in line:
                nviol += 1
            if i in (5000, 70000):
                ck.sample({"case": json.loads(line)})
    ck.cov["model_cases_violating_a_clause"] = nviol
    outp = os.path.join(wd, "replay.ndjson")
    rc, out, err = vlib.run_harness(exe_fast, ["c19-replay", cases, outp, str(max(1, r.exported // 500))], timeout=6000)
    if rc != 0:
        raise vlib.InfraError("c19-replay failed: " + err[-2000:])
    summ = json.loads(out.strip().splitlines()[-1])
    ck.cov["replay"] = summ
    ck.cov["evaluations"] += summ["runs"]
    ck._distinct.update(("c%d" % i).encode() for i in range(summ["runs"]))
    lines = judge(ck, outp, "replay")
    drift = sum(1 for l in lines if '"match":false' in l)
    if drift:
        ck.note_drift({"what": "implementation result differs from Clean_Exact on %d runs (judged by the property-level clauses)" % drift})
    ck.cov["traces_validated_against_impl"] += summ["runs"] - summ["mismatch"] - 0
    ck.cov["exhaustive"] = True
    ck.assumptions += ["POSIX semantics of std::filesystem::path::is_relative (what this sandbox can observe)",
                       "the terrain flag exists only as a load option, so terrain cases go through Save+Load",
                       "random bytes are abstracted to tokens (whitespace classes, separators, the words textures/data, anything else a letter)"]
    os.remove(cases)
    return ck.finish()


def replay(path):
    d = json.load(open(path))
    print(json.dumps(d["detail"])[:1500])
    return 1
