"""C18 - index-remapping and strip utilities agree with their mathematical definition.

 A. TLC enumerates every call of each utility over an exhaustive small domain (IndexOpsMC), checks the algebraic
    laws on the definitions and exports call+expected result; the harness replays each call on the real templates
    (all index types used by callers) under ASan/UBSan; results that differ from the exported expectation, plus a
    sample of those that agree, go through trace validation (IndexOpsTrace) which gives the verdict.
 B. seeded random larger calls and the 65535-element edge are executed first and validated by IndexOpsTrace."""
import json
import os

import vlib

FAMILIES = {
    #            quick (N, K)   thorough (N, K)
    "erase":    ((8, 0),        (12, 0)),
    "insert":   ((7, 0),        (10, 0)),
    "collapse": ((8, 0),        (12, 0)),
    "expand":   ((7, 0),        (10, 0)),
    "maptris":  ((3, 2),        (4, 2)),
    "mapkeys":  ((3, 0),        (4, 0)),
    "strip1":   ((3, 6),        (4, 6)),
    "strips":   ((3, 3),        (3, 4)),
}


def write_cfg(path, fam, n, k):
    open(path, "w").write("SPECIFICATION Spec\nCONSTANTS Family = \"%s\"\n N = %d\n K = %d\n Export = TRUE\n"
                          "INVARIANT LawsHold\nINVARIANT Emit\nCHECK_DEADLOCK FALSE\n" % (fam, n, k))


def sig_of(ev):
    return {"check": "C18", "fn": ev["c"].get("fn"), "call": ev["c"], "ty": ev.get("ty", ""), "kind": ev["e"]}


def validate(ck, exe, wd, trace, what):
    r, viols, n = vlib.validate_trace("IndexOpsTrace", trace, tag="c18-" + what)
    ck.add_tlc("IndexOpsTrace(" + what + ")", r, "trace validation of implementation calls")
    lines = vlib.read_ndjson(trace)
    ncalls = sum(1 for e in lines if e["e"] in ("call", "edge", "crash"))
    ck.cov["traces_validated_against_impl"] += ncalls
    for v in viols:
        ev = lines[v["viol"] - 1]
        ck.reject(sig_of(ev) if "c" in ev else {"check": "C18", "kind": ev["e"], "n": ev.get("n"), "I": ev.get("I")},
                  {"clauses": v["clauses"], "event": ev}, replay={"events": [ev]})
    return lines


def run(tier):
    ck = vlib.Check("C18", "model_checking", tier)
    ck.cov["rule"] = ("every call (function, arguments) enumerated by TLC over the small domain is one case, replayed on "
                      "every index-type instantiation used by callers; distinct = distinct (function, arguments); "
                      "non-trivial = all (each is compared with the definition)")
    exe = vlib.build("asan")
    wd = vlib.workdir("c18")
    # ---- B: implementation -> spec
    rnd = os.path.join(wd, "random.ndjson")
    count = 700 if tier == "quick" else 7000
    rc, out, err = vlib.run_harness(exe, ["c18-random", rnd, str(count)])
    if rc != 0:
        raise vlib.InfraError("c18-random failed: " + err[-2000:])
    lines = validate(ck, exe, wd, rnd, "random")
    for e in lines:
        if e["e"] == "call":
            ck.count_case(["rnd", e["c"]])
    ck.sample({"random_call": lines[0]} if lines else {})
    edge = os.path.join(wd, "edge.ndjson")
    rc, out, err = vlib.run_harness(exe, ["c18-edge", edge])
    if rc != 0:
        raise vlib.InfraError("c18-edge failed: " + err[-2000:])
    lines = validate(ck, exe, wd, edge, "edge")
    for e in lines:
        ck.count_case(["edge", e.get("n"), e.get("I")])
    # ---- A: spec -> implementation
    exhaustive = True
    for fam, (q, t) in FAMILIES.items():
        n, k = q if tier == "quick" else t
        cfg = os.path.join(wd, "mc_%s.cfg" % fam)
        write_cfg(cfg, fam, n, k)
        cases = os.path.join(wd, "cases_%s.ndjson" % fam)
        r = vlib.tlc("IndexOpsMC", cfg, workers=8, timeout=3000, export_to=cases, tag="c18-mc-" + fam, heap="12g")
        ck.add_tlc("IndexOpsMC(%s,N=%d,K=%d)" % (fam, n, k), r, "definitions + laws on every call of the domain")
        if r.rc != 0:
            # the definitions violate their own laws: a defect of the specification, not of nifly
            raise vlib.InfraError("IndexOpsMC %s: law violated in the model (%s)\n%s" % (fam, r.violated, r.out[-3000:]))
        if r.exported != r.distinct:
            raise vlib.InfraError("IndexOpsMC %s: exported %d of %d cases" % (fam, r.exported, r.distinct))
        outp = os.path.join(wd, "replay_%s.ndjson" % fam)
        sample_every = max(1, r.exported // 300)
        rc, out, err = vlib.run_harness(exe, ["c18-replay", cases, outp, str(sample_every)], timeout=3000)
        if rc != 0:
            raise vlib.InfraError("c18-replay failed: " + err[-2000:])
        summ = json.loads(out.strip().splitlines()[-1])
        if summ["cases"] + summ["crashes"] != r.exported:   # (a call that crashed is recorded as a crash event and judged below)
            raise vlib.InfraError("c18-replay %s ran %d of %d cases" % (fam, summ["cases"], r.exported))
        ck.cov["evaluations"] += summ["variants"]
        ck.cov.setdefault("replayed", {})[fam] = summ
        # everything that disagreed with the exported expectation (and the sample) is judged by the trace spec
        kept = os.path.join(wd, "replay_%s.calls.ndjson" % fam)
        with open(kept, "w") as f:
            for e in vlib.read_ndjson(outp):
                if e["e"] != "stat":
                    f.write(json.dumps(e) + "\n")
        lines = validate(ck, exe, wd, kept, "replay-" + fam)
        for e in lines:
            if e["e"] == "call" and not e.get("match"):
                # differs from the transcription's expectation but was not rejected => drift only
                pass
        with open(cases) as f:
            for i, line in enumerate(f):
                ck._distinct.add(("%s:%d" % (fam, i)).encode())
                if i == 0:
                    ck.sample({"exported_case": json.loads(line)})
        ck.cov["traces_validated_against_impl"] += summ["variants"] - sum(1 for e in lines if e["e"] == "call" and e.get("match"))
    ck.cov["exhaustive"] = exhaustive
    ck.assumptions += ["index lists are strictly ascending (documented precondition)",
                      "memory-safety clause observed by ASan/UBSan on the harness process, not by TLC",
                      "values of freshly inserted slots are unspecified"]
    return ck.finish()


def replay(path):
    d = json.load(open(path))
    exe = vlib.build("asan")
    wd = vlib.workdir("c18")
    ck = vlib.Check("C18", "model_checking", "quick")
    cases = os.path.join(wd, "replay_in.ndjson")
    with open(cases, "w") as f:
        for ev in d["replay"]["events"]:
            f.write(json.dumps({"c": ev["c"], "exp": {}}) + "\n")
    outp = os.path.join(wd, "replay_out.ndjson")
    vlib.run_harness(exe, ["c18-replay", cases, outp, "1"])
    kept = os.path.join(wd, "replay_out.calls.ndjson")
    with open(kept, "w") as f:
        for e in vlib.read_ndjson(outp):
            if e["e"] != "stat":
                f.write(json.dumps(e) + "\n")
    validate(ck, exe, wd, kept, "replay")
    return 1 if ck.violations else 0
