"""C04 - the default save only permutes blocks and prunes unreferenced ones.

 A. TLC (NifGraphMC, alphabet "sort", Add-only) enumerates every graph of <= MaxBlocks blocks over the kinds the sorter
    distinguishes (nodes, ordered nodes, named shapes, geometry data, collision objects, rigid bodies, constraints) and
    flags the well-typed acyclic ones (the quantifier of C04). The harness builds each from real classes in an OB/FO3-family
    and a later version and runs PrettySortBlocks (twice), SetShapeOrder with every name list over {A,B,Z}, Optimize and
    Save(default) twice; each step is logged with uids and masked content ids and judged by NifGraphTrace
    (SortViol / OptimizeViol / SaveDefaultViol / FileViol / idempotence).
 B. the same operations on the 26 sample files."""
import json
import os

import vlib


def sig_of(ev, clauses):
    s = {"check": "C04", "event": ev["e"], "clauses": sorted(clauses), "op": ev.get("op")}
    c = ev.get("case", {})
    if "file" in c:
        s["input"] = c["file"]
    if "names" in ev:
        s["names"] = ev["names"]
    return s


def judge(ck, trace, what):
    r, viols, n = vlib.validate_trace("NifGraphTrace", trace, tag="c04-" + what, stack_mb=512, timeout=6000, heap="16g")
    ck.add_tlc("NifGraphTrace(%s)" % what, r, "SortViol/OptimizeViol/SaveDefaultViol/FileViol on implementation steps")
    ck.cov["traces_validated_against_impl"] += n
    drifts = {x["drift"] for x in r.records if isinstance(x, dict) and "drift" in x}
    ck.cov["sorter_transcription_exact_on"] = ck.cov.get("sorter_transcription_exact_on", 0) - len(drifts)
    if drifts:
        with open(trace) as f:
            for i, line in enumerate(f, 1):
                if i in drifts and len(ck.drift) < 50:
                    ev = json.loads(line)
                    ck.note_drift({"what": "NifSort transcription differs from the library", "op": ev.get("op"), "case": ev.get("case"), "names": ev.get("names"),
                                   "pre": [[b["type"], b["refs"], b["ptrs"], b.get("name", "")] for b in ev["pre"]["blocks"]],
                                   "post": [[b["type"], b["refs"], b["ptrs"], b.get("name", "")] for b in ev["post"]["blocks"]]})
    if not viols:
        return
    want = {v["viol"]: v for v in viols}
    with open(trace) as f:
        for i, line in enumerate(f, 1):
            if i in want:
                ev = json.loads(line)
                small = {k: ev[k] for k in ev if k not in ("pre", "post", "file")}
                if "pre" in ev:
                    small["pre_blocks"] = [[b["type"], b["refs"], b["ptrs"], b.get("name", "")] for b in ev["pre"]["blocks"]][:12]
                    small["post_blocks"] = [[b["type"], b["refs"], b["ptrs"], b.get("name", "")] for b in ev["post"]["blocks"]][:12]
                ck.reject(sig_of(ev, want[i]["clauses"]), {"clauses": want[i]["clauses"], "event": small}, replay={"event": ev})


def run(tier):
    ck = vlib.Check("C04", "model_checking", tier)
    ck.cov["rule"] = ("case = (graph or sample file, version, operation incl. shape-name list); every case is executed on the real "
                      "library and judged; distinct = distinct (input, version, operation, arguments)")
    exe = vlib.build("O1")
    wd = vlib.workdir("c04")
    # ---- B: sample files
    tr = os.path.join(wd, "samples.ndjson")
    rc, out, err = vlib.run_harness(exe, ["c04-samples", tr])
    if rc != 0:
        raise vlib.InfraError("c04-samples failed: " + err[-2000:])
    judge(ck, tr, "samples")
    n = sum(1 for _ in open(tr))
    ck.cov["evaluations"] += n
    ck._distinct.update(("s%d" % i).encode() for i in range(n))
    ck.sample({"sample_files": json.loads(out.strip().splitlines()[-1]), "ops": ["Sort", "Sort2", "ShapeOrder(identity|reversed|duplicate|missing)", "Optimize", "SaveDefault", "SaveDefault2"]})
    # ---- A: enumerated graphs
    scopes = [(3, False)] if tier == "quick" else [(3, True)]
    for mb, rich in scopes:
        name = "mb%d_%s" % (mb, "rich" if rich else "narrow")
        cfg = os.path.join(wd, name + ".cfg")
        open(cfg, "w").write("SPECIFICATION Spec\nCONSTANTS MaxBlocks = %d\n HasSizes = TRUE\n Rich = %s\n Export = FALSE\n Alphabet = \"sort\"\n"
                             " Corrupt = FALSE\n OnlyAdd = TRUE\n ExportStates = TRUE\nINVARIANT EmitState\nVIEW View\nCHECK_DEADLOCK FALSE\n"
                             % (mb, "TRUE" if rich else "FALSE"))
        states = os.path.join(wd, name + ".states.ndjson")
        r = vlib.tlc("NifGraphMC", cfg, workers=12, timeout=6000, export_to=states, tag="c04-" + name, heap="20g")
        ck.add_tlc("NifGraphMC(sort,%s)" % name, r, "all graphs over the sort alphabet; WellTyped/Acyclic evaluated per graph")
        if r.rc != 0 or r.exported != r.distinct:
            raise vlib.InfraError("NifGraphMC(sort) %s: rc=%d exported %d of %d" % (name, r.rc, r.exported, r.distinct))
        trace = os.path.join(wd, name + ".trace.ndjson")
        rc, out, err = vlib.run_harness(exe, ["c04-graphs", states, trace, "FO3,SSE", "1", "0"], timeout=6000)
        if rc != 0:
            raise vlib.InfraError("c04-graphs failed: " + err[-2000:])
        summ = json.loads(out.strip().splitlines()[-1])
        ck.cov.setdefault("graphs", {})[name] = summ
        judge(ck, trace, name)
        nsort = sum(1 for l in open(trace) if '"op":"Sort' in l or '"op":"ShapeOrder"' in l)
        ck.cov["sorter_transcription_exact_on"] = ck.cov.get("sorter_transcription_exact_on", 0) + nsort
        n = sum(1 for _ in open(trace))
        ck.cov["evaluations"] += n
        ck._distinct.update(("%s:%d" % (name, i)).encode() for i in range(n))
        with open(states) as f:
            for line in f:
                if '"wf":true' in line and '"NiTriShape"' in line and len(ck.cov["samples"]) < 4:
                    ck.sample({"graph": json.loads(line)["g"]["blocks"], "versions": ["FO3", "SSE"]})
        os.remove(states)
        os.remove(trace)
    # ---- design level: the sorter transcription (NifSort) satisfies the relation on every well-typed acyclic graph, terminates
    cfg = os.path.join(wd, "nifsort.cfg")
    open(cfg, "w").write("SPECIFICATION Spec\nCONSTANTS MaxBlocks = 3\n HasSizes = TRUE\n Rich = %s\n Export = FALSE\n Alphabet = \"sort\"\n"
                         " Corrupt = FALSE\n OnlyAdd = TRUE\n ExportStates = FALSE\n Fuel = 300\n ExportSort = FALSE\n"
                         "INVARIANT SortTerminates\nINVARIANT SortRefines\nINVARIANT ShapeOrderRefines\nVIEW View\nCHECK_DEADLOCK FALSE\n"
                         % ("TRUE" if tier == "thorough" else "FALSE"))
    r = vlib.tlc("NifSortMC", cfg, workers=12, timeout=6000, tag="c04-nifsort", heap="16g")
    ck.add_tlc("NifSortMC(design)", r, "sorter transcription: SortViol = {} and idempotent on well-typed acyclic graphs, SetShapeOrder with every name list, termination")
    if r.rc != 0:
        # the transcription is compared with the library on the same graphs above (drift); a model-level failure with an exact
        # transcription would have shown as a rejection of the library's own result there
        ck.note_drift({"what": "NifSortMC: the sorter transcription violates %s in the model" % r.violated})
    ck.cov["exhaustive"] = True
    ck.assumptions += ["C04 quantifies over well-typed acyclic graphs; ill-typed, cyclic and dangling references are C15's fault space",
                       "bounds are recomputed before the pre-snapshot so that content ids compare field values other than bounds",
                       "content id = hash of the payload written by Put() of a clone, reference and string-index fields masked (hooks H2/H3)",
                       "a node may lose duplicate child entries (\"none listed more often than before\")"]
    return ck.finish()


def replay(path):
    d = json.load(open(path))
    wd = vlib.workdir("c04")
    p = os.path.join(wd, "replay.ndjson")
    open(p, "w").write(json.dumps(d["replay"]["event"]) + "\n")
    r, viols, n = vlib.validate_trace("NifGraphTrace", p, tag="c04-replay", stack_mb=512)
    for v in viols:
        print("VIOLATION property=C04 replay=%s" % path)
        print("  clauses:", v["clauses"])
    return 1 if viols else 0
