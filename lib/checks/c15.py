"""C15 - corrupted block references never crash loading, querying, copying or saving.

 The fault space is the specification's: NifFault.tla reads the reference table of each loadable file (every serialised
 reference with its byte offset, located through hook H2) and TLC enumerates Corrupt(field, value) over the kinds the
 property lists (empty, count, beyond count, self, each ancestor, in-range incl. wrong type); NifGraphMC (alphabet "sort",
 Corrupt=TRUE) enumerates whole small graphs with dangling / ill-typed / cyclic references. The harness applies each fault
 (byte patch, or builds the graph from real classes), and runs load -> query battery -> copy + assign -> sort -> default
 save -> reload -> battery in a forked child under ASan+UBSan with a watchdog. TLC then validates the recorded post-fault
 contract (FaultViol: still loads, save returns, saved file loads); a Crash/Timeout record is accepted by no action."""
import json
import os
import random

import vlib


def sig_of(ev, clauses):
    c = ev.get("case", {})
    s = {"check": "C15", "event": ev["e"], "clauses": sorted(clauses)}
    if "file" in c:
        s["input"] = c["file"]
        fl = c.get("fault", {})
        s["field"] = {"type": fl.get("type"), "ord": fl.get("ord"), "kind": fl.get("kind")}
    if "graph" in c:
        s["graph"] = c["graph"]
        s["ver"] = c["ver"]
    if "why" in ev:
        s["why"] = ev["why"]
    return s


def judge(ck, trace, what):
    r, viols, n = vlib.validate_trace("NifGraphTrace", trace, tag="c15-" + what, timeout=3000)
    ck.add_tlc("NifGraphTrace(%s)" % what, r, "post-fault contract on implementation runs")
    ck.cov["traces_validated_against_impl"] += n
    ck.cov["evaluations"] += n
    drifts = sorted(x["drift"] for x in r.records if isinstance(x, dict) and "drift" in x)
    if "graphs" in what:
        nsort = sum(1 for l in open(trace) if '"op":"SortCorrupt"' in l)
        ck.cov["sorter_transcription_exact_on"] = ck.cov.get("sorter_transcription_exact_on", 0) + nsort - len(drifts)
    if drifts:
        evs = vlib.read_ndjson(trace)
        for d in drifts[:50]:
            ev = evs[d - 1]
            ck.note_drift({"what": "NifSort transcription differs from the library on a corrupt graph", "case": ev.get("case"),
                           "pre": [[b["type"], b["refs"], b["ptrs"]] for b in ev["pre"]["blocks"]],
                           "post": [[b["type"], b["refs"], b["ptrs"]] for b in ev["post"]["blocks"]]})
    if viols:
        evs = vlib.read_ndjson(trace)
        for v in viols:
            ev = evs[v["viol"] - 1]
            small = {k: ev[k] for k in ev if k != "model"}
            if "model" in ev:
                small["blocks"] = [[b["type"], b["refs"], b["ptrs"]] for b in ev["model"]["g"]["blocks"]]
            ck.reject(sig_of(ev, v["clauses"]), {"clauses": v["clauses"], "event": small}, replay={"event": ev})


def run(tier):
    ck = vlib.Check("C15", "fault_enumeration", tier)
    ck.cov["rule"] = ("case = one fault set (1..3 corrupted reference fields of a sample file, or one enumerated corrupt graph in "
                      "one version) driven through load/query/copy/sort/save/reload; distinct = distinct fault sets; non-trivial = all "
                      "(every case changes at least one reference)")
    exe = vlib.build("asan")
    exe_fast = vlib.build("O1")
    wd = vlib.workdir("c15")
    rng = random.Random(vlib.SEED * 7919 + 15)
    files = sorted(f for f in os.listdir(os.path.join(vlib.REPO, "tests", "input")) if f.endswith(".nif"))
    # one reference table for all sample files, one TLC run enumerating every single fault
    rt = os.path.join(wd, "rt.ndjson")
    nblocks = {}
    with open(rt, "w") as allrt:
        for fn in files:
            one = os.path.join(wd, "rt1.ndjson")
            rc, out, err = vlib.run_harness(exe_fast, ["c15-reftable", os.path.join(vlib.REPO, "tests", "input", fn), one])
            if rc != 0:
                raise vlib.InfraError("c15-reftable %s failed: %s" % (fn, err[-1000:]))
            for line in open(one):
                d = json.loads(line)
                d["file"] = fn
                nblocks[fn] = d["n"]
                allrt.write(json.dumps(d) + "\n")
    faults = os.path.join(wd, "faults.ndjson")
    r = vlib.tlc("NifFault", "NifFault.cfg", workers=8, env={"REFTABLE": rt}, export_to=faults, tag="c15-faults", timeout=3000, heap="12g")
    ck.add_tlc("NifFault(all sample files)", r, "Corrupt(field, value) over all kinds for every serialised reference")
    if r.rc != 0 or r.exported != r.distinct:
        raise vlib.InfraError("NifFault: rc=%d exported %d of %d" % (r.rc, r.exported, r.distinct))
    by_file = {}
    for line in open(faults):
        d = json.loads(line)
        by_file.setdefault(d["file"], []).append(d)
    ck.cov["single_faults_enumerated"] = r.exported
    hung = 0
    for fi, fn in enumerate(files):
        singles = by_file.get(fn, [])
        if not singles:
            continue
        path = os.path.join(vlib.REPO, "tests", "input", fn)
        singles.sort(key=lambda d: (d["patch"][0][0], d["patch"][0][1]))
        heavy = nblocks.get(fn, 0) > 100
        if tier == "quick":
            cap = 25 if heavy else 70
        else:
            cap = 1500 if heavy else 100000
        if len(singles) > cap:
            # seeded spread over the fields, but every cycle-making fault (self / ancestor) of the first fields is kept
            # seeded sample, stratified by corruption kind so that the rare kinds (self, ancestor, far) are always in it
            by_kind = {}
            for i, d in enumerate(singles):
                by_kind.setdefault(d["kind"], []).append(i)
            idx = set()
            share = max(3, cap // (2 * max(1, len(by_kind))))
            for kind, lst in sorted(by_kind.items()):
                idx.update(rng.sample(lst, min(share, len(lst))))
            rest = [i for i in range(len(singles)) if i not in idx]
            idx.update(rng.sample(rest, max(0, min(len(rest), cap - len(idx)))))
            chosen = [singles[i] for i in sorted(idx)]
        else:
            chosen = list(singles)
        combos = []
        for _ in range(6 if tier == "quick" else 80):
            k = rng.choice([2, 3])
            pick = rng.sample(singles, min(k, len(singles)))
            if len({p["patch"][0][0] for p in pick}) == len(pick):
                combos.append({"file": fn, "patch": [p["patch"][0] for p in pick], "kind": "+".join(p["kind"] for p in pick),
                               "block": pick[0]["block"], "type": pick[0]["type"], "ord": pick[0]["ord"], "was": pick[0]["was"]})
        run_list = os.path.join(wd, "run.ndjson")
        with open(run_list, "w") as f:
            for c in chosen + combos:
                f.write(json.dumps(c) + "\n")
        outp = os.path.join(wd, "inject.ndjson")
        rc, out, err = vlib.run_harness(exe_fast if (heavy and tier != "quick") else exe, ["c15-inject", path, run_list, outp], timeout=7000)
        if rc != 0:
            raise vlib.InfraError("c15-inject %s failed: %s" % (fn, err[-1500:]))
        judge(ck, outp, fn)
        hung += sum(1 for l in open(outp) if '"e":"crash"' in l and '"Timeout"' in l)
        for c in chosen + combos:
            ck.count_case([fn, c["patch"]])
        if hung >= 24:
            # the library hangs on fault after fault (each costs the 25 s watchdog): the timeouts recorded so far are reported,
            # the remaining files and the enumerated graphs are not run
            ck.assumptions.append("stopped after %d timeouts: remaining inputs not run" % hung)
            return ck.finish()
        if fi % 9 == 0 and chosen:
            ck.sample({"file": fn, "fault": chosen[0]})
    # ---- enumerated corrupt graphs
    def graph_cfg(mb):
        cfg = os.path.join(wd, "graphs%d.cfg" % mb)
        open(cfg, "w").write("SPECIFICATION Spec\nCONSTANTS MaxBlocks = %d\n HasSizes = TRUE\n Rich = FALSE\n Export = FALSE\n Alphabet = \"sort\"\n"
                             " Corrupt = TRUE\n OnlyAdd = TRUE\n ExportStates = TRUE\nINVARIANT EmitState\nVIEW View\nCHECK_DEADLOCK FALSE\n" % mb)
        return cfg
    runs = []
    states2 = os.path.join(wd, "states2.ndjson")
    r = vlib.tlc("NifGraphMC", graph_cfg(2), workers=8, timeout=3000, export_to=states2, tag="c15-graphs2", heap="12g")
    ck.add_tlc("NifGraphMC(sort,corrupt,mb2)", r, "all graphs of <= 2 blocks incl. dangling / ill-typed / cyclic references")
    if r.rc != 0 or r.exported != r.distinct:
        raise vlib.InfraError("NifGraphMC(corrupt,2): rc=%d exported %d of %d" % (r.rc, r.exported, r.distinct))
    runs.append(("mb2", states2, 1, exe_fast))
    runs.append(("mb2-asan", states2, 4 if tier == "quick" else 1, exe))
    states3 = os.path.join(wd, "states3.ndjson")
    if tier == "quick":
        # random 3-block graphs: TLC simulation (seeded), every visited state is exported
        r = vlib.tlc("NifGraphMC", graph_cfg(3), workers=4, timeout=3000, export_to=states3, tag="c15-graphs3", heap="12g",
                     simulate=4, depth=4, seed=vlib.SEED)
        ck.add_tlc("NifGraphMC(sort,corrupt,mb3,simulate)", r, "seeded random behaviours Add;Add;Add with all successors of each step exported")
        runs.append(("mb3sim", states3, 1, exe_fast))
        runs.append(("mb3sim-asan", states3, 6, exe))
    else:
        r = vlib.tlc("NifGraphMC", graph_cfg(3), workers=12, timeout=7000, export_to=states3, tag="c15-graphs3", heap="20g")
        ck.add_tlc("NifGraphMC(sort,corrupt,mb3)", r, "all graphs of <= 3 blocks incl. dangling / ill-typed / cyclic references")
        if r.rc != 0 or r.exported != r.distinct:
            raise vlib.InfraError("NifGraphMC(corrupt,3): rc=%d exported %d of %d" % (r.rc, r.exported, r.distinct))
        runs.append(("mb3", states3, 4, exe_fast))
        runs.append(("mb3-asan", states3, 64, exe))
    for name, states, every, ex in runs:
        outp = os.path.join(wd, "graphs.ndjson")
        rc, out, err = vlib.run_harness(ex, ["c15-graphs", states, outp, "FO3,SSE", str(every), str(vlib.SEED)], timeout=7000)
        if rc != 0:
            raise vlib.InfraError("c15-graphs failed: " + err[-1500:])
        summ = json.loads(out.strip().splitlines()[-1])
        ck.cov.setdefault("graphs", {})[name] = summ
        judge(ck, outp, "graphs-" + name)
        ck._distinct.update(("%s:%d" % (name, i)).encode() for i in range(summ["cases"]))
        with open(states) as f:
            for i, line in enumerate(f):
                if i == 3000 and not name.endswith("asan"):
                    ck.sample({"corrupt_graph": json.loads(line)["g"]["blocks"]})
    # ---- design level: the sorter transcription terminates on every corrupt graph (fuel never runs out)
    mb = 2 if tier == "quick" else 3
    cfg = os.path.join(wd, "nifsort.cfg")
    open(cfg, "w").write("SPECIFICATION Spec\nCONSTANTS MaxBlocks = %d\n HasSizes = TRUE\n Rich = FALSE\n Export = FALSE\n Alphabet = \"sort\"\n"
                         " Corrupt = TRUE\n OnlyAdd = TRUE\n ExportStates = FALSE\n Fuel = 300\n ExportSort = FALSE\n"
                         "INVARIANT SortTerminates\nVIEW View\nCHECK_DEADLOCK FALSE\n" % mb)
    r = vlib.tlc("NifSortMC", cfg, workers=12, timeout=6000, tag="c15-nifsort", heap="16g")
    ck.add_tlc("NifSortMC(corrupt,mb%d)" % mb, r, "sorter transcription terminates on every graph incl. dangling / ill-typed / cyclic references (PrettySort and SetShapeOrder)")
    if r.rc != 0:
        ck.note_drift({"what": "NifSortMC: the sorter transcription violates %s in the model" % r.violated})
    for st in (states2, states3):
        if os.path.exists(st):
            os.remove(st)
    ck.assumptions += ["absence of memory errors/UB/hangs is observed by ASan+UBSan and a 25 s watchdog on the forked harness child (quick tier: "
                       "files above 300 kB and, in the thorough tier, the enumerated graphs run without sanitizers for time)",
                       "reference fields are those synced at the address of a live NiRef (hook H2)",
                       "in-range values: all for files of <= 24 blocks, a spread of 6 otherwise"]
    return ck.finish()


def replay(path):
    d = json.load(open(path))
    ev = d["replay"]["event"]
    print(json.dumps({k: ev[k] for k in ev if k != "model"})[:2000])
    return 1
