"""C17 - segment/partition labels round-trip and always partition the triangles.

 MeshMC enumerates with TLC every label list for 0..MaxT triangles over four segmentation infos (segments with and without
 sub-segments, permuted ids, empty segments, unassigned -1) and every assignment of 1..MaxT triangles to 1..3 dismember
 partitions. The harness applies SetShapeSegments / GetShapeSegments to a real FO4 shape (then deletes a vertex, saves and
 reloads) and SetShapePartitions + UpdateSkinPartitions / GetShapePartitions to FO3, SK and SSE shapes; TLC judges
 MeshOps!SegmentationViol (labels round-trip up to the documented renumbering as a bag of (triangle, label) pairs, segment
 structure as given, non-empty ranges tile the triangles in order, counts sum to the triangle count), PartAssignViol and, after
 vertex deletion, DeleteVertsViol."""
import json
import os

import vlib
from checks import c09, c10


def run(tier):
    ck = vlib.Check("C17", "model_checking", tier)
    ck.cov["rule"] = "case = (triangle count, segmentation info, label list) or (triangle count, partitions, label list) x version; distinct = distinct cases"
    exe = vlib.build("O1")
    wd = vlib.workdir("c17")
    maxt = 5 if tier == "quick" else 6
    for fam in ("segments", "partassign"):
        cfg = os.path.join(wd, fam + ".cfg")
        open(cfg, "w").write("SPECIFICATION Spec\nCONSTANTS Family = \"%s\"\n MaxV = 4\n MaxT = %d\n Sample = 1\n Phase = 0\nINVARIANT Emit\nCHECK_DEADLOCK FALSE\n" % (fam, maxt))
        cases = os.path.join(wd, fam + ".cases.ndjson")
        r = vlib.tlc("MeshMC", cfg, workers=12, timeout=6000, export_to=cases, tag="c17-" + fam, heap="16g")
        ck.add_tlc("MeshMC(%s)" % fam, r, "label lists")
        if r.rc != 0 or r.exported != r.distinct:
            raise vlib.InfraError("MeshMC %s: rc=%d exported %d of %d" % (fam, r.rc, r.exported, r.distinct))
        tr = os.path.join(wd, fam + ".trace.ndjson")
        rc, out, err = vlib.run_harness(exe, ["c17-cases", cases, tr], timeout=7000)
        if rc != 0:
            raise vlib.InfraError("c17-cases failed: " + err[-1500:])
        lines = c09.judge(ck, "C17", tr, fam)
        ck._distinct.update(("%s%d" % (fam, i)).encode() for i in range(len(lines)))
        with open(cases) as f:
            for i, line in enumerate(f):
                if i == r.exported // 2:
                    ck.sample({"case": json.loads(line)["c"]})
        os.remove(cases)
    ck.cov["exhaustive"] = True
    ck.assumptions += ["labels outside the given segmentation info are outside the quantifier (unassigned = -1 is inside)",
                       "empty ranges carry no triangles: their stored offsets are not constrained"]
    # the partition API as a machine (PartApi.tla, §3.7): read-back of labels after every call order
    c10.api_machine(ck, tier, wd, exe, prop="C17")
    return ck.finish()


def replay(path):
    d = json.load(open(path))
    print(json.dumps(d["detail"])[:1500])
    return 1
