"""C12 - LE<->SE conversion preserves geometry and skinning and yields a valid file.

 MeshMC (family convert): TLC enumerates every combination of the conversion options (headParts, removeParallax, calcBounds,
 fixBSXFlags, fixShaderFlags) x direction x model features (skinned, vertex colours, an NiTriStrips shape with stitched strips,
 two dismember partitions with different bone palettes, duplicate sibling names). The harness builds each model in the source
 version, brings it to normal form, converts, saves, reloads in the target version and converts back. TLC judges
 MeshOps!ConvertViol per shape (positions bit-exact, same triangle set, UVs / colours within storage precision, only all-white
 colours may be dropped, same bone list, per-vertex weights within 3/1000, shader and parent kept, sibling names distinct), the
 partition invariants of C10 on the reloaded file, and the there-and-back relation. The LE/SE sample files are converted with
 default and head-part options."""
import json
import os

import vlib
from checks import c09


def run(tier):
    ck = vlib.Check("C12", "model_checking", tier)
    ck.cov["rule"] = "case = (model features, option combination, direction) or (sample file, options); distinct = distinct cases"
    exe = vlib.build("O1")
    wd = vlib.workdir("c12")
    tr = os.path.join(wd, "samples.ndjson")
    rc, out, err = vlib.run_harness(exe, ["c12-samples", tr], timeout=6000)
    if rc != 0:
        raise vlib.InfraError("c12-samples failed: " + err[-1500:])
    lines = c09.judge(ck, "C12", tr, "samples")
    ck._distinct.update(("s%d" % i).encode() for i in range(len(lines)))
    cfg = os.path.join(wd, "mc.cfg")
    sample = 4 if tier == "quick" else 1
    open(cfg, "w").write("SPECIFICATION Spec\nCONSTANTS Family = \"convert\"\n MaxV = 4\n MaxT = 2\n Sample = %d\n Phase = %d\nINVARIANT Emit\nCHECK_DEADLOCK FALSE\n" % (sample, vlib.SEED))
    cases = os.path.join(wd, "cases.ndjson")
    r = vlib.tlc("MeshMC", cfg, workers=8, timeout=3000, export_to=cases, tag="c12-mc", heap="8g")
    ck.add_tlc("MeshMC(convert)", r, "option x feature combinations")
    if r.rc != 0:
        raise vlib.InfraError("MeshMC convert failed")
    tr = os.path.join(wd, "cases.trace.ndjson")
    rc, out, err = vlib.run_harness(exe, ["c12-cases", cases, tr], timeout=7000)
    if rc != 0:
        raise vlib.InfraError("c12-cases failed: " + err[-1500:])
    lines = c09.judge(ck, "C12", tr, "cases")
    ck._distinct.update(("c%d" % i).encode() for i in range(len(lines)))
    with open(cases) as f:
        ck.sample({"case": json.loads(f.readline())["c"]})
    ck.cov["exhaustive"] = (sample == 1)
    ck.assumptions += ["UVs are compared in 1/2048 with a slack of 2, colours in 1/255 with a slack of 1, weights in 1/1000 with a slack of 3 (half-float storage)",
                       "constructed models are brought to normal form (saved and reloaded in the source version) before the conversion"]
    return ck.finish()


def replay(path):
    d = json.load(open(path))
    print(json.dumps(d["detail"])[:1500])
    return 1
