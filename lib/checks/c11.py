"""C11 - a copied model is equal to and fully independent of its source.

 NifCopy.tla: TLC explores every interleaving of a copy (constructor / assignment over an existing model) followed by up to
 Depth steps of {seven kinds of edit on either side, raw / default save of either side, destruction of either side} and
 exports every behaviour. The harness executes each behaviour on real models (LE / Oblivion models whose shapes keep a cached
 pointer to a separate geometry-data block, SE, FO4, collision and animation files) under AddressSanitizer and logs, per step,
 the projection of both sides (every query answer + block graph with payload content ids), whether both saved to equal bytes
 after the copy, and the shapes whose cached geometry pointer does not designate their own model's data block. TLC
 (NifCopyTrace) judges CopyEqual, Frame (a step on one side leaves the other's projection) and NoForeign; ASan reports
 (use after free after destroying one side, ...) become Crash records."""
import json
import os

import vlib

FILES = ["TestNifFile_Optimize_LE_to_SE.nif", "TestNifFile_Skinned_OB.nif", "TestNifFile_SF.nif", "TestNifFile_Static_FO4_132.nif", "TestNifFile_Skinned_FO4.nif",
         "TestNifFile_Static_SE.nif",
         "TestNifFile_Furniture_Col_SE.nif", "TestNifFile_Animated_LE.nif"]


def run(tier):
    ck = vlib.Check("C11", "model_checking", tier)
    ck.cov["rule"] = "case = (behaviour of the copy machine, sample model); every step is executed and judged; distinct = distinct (behaviour, model)"
    exe = vlib.build("asan")
    wd = vlib.workdir("c11")
    # thorough: every behaviour of depth 2 on all models, and of depth 3 on the model whose shapes cache a pointer into a
    # separate geometry block (about 21 000 behaviours under ASan)
    passes = [(2, FILES[:3])] if tier == "quick" else [(2, FILES), (3, FILES[:1])]
    # every sample file: the copy alone (constructor and assignment), judged like the first step of a behaviour
    passes.insert(0, (0, sorted(f for f in os.listdir(os.path.join(vlib.REPO, "tests", "input")) if f.endswith(".nif"))))
    for depth, files in passes:
        cfg = os.path.join(wd, "mc.cfg")
        open(cfg, "w").write("SPECIFICATION Spec\nCONSTANTS Depth = %d\n Pre = %d\n Export = TRUE\nINVARIANT CopyEqual\nINVARIANT Emit\nCHECK_DEADLOCK FALSE\n" % (depth, 0 if depth == 0 else 1))
        hists = os.path.join(wd, "hists.ndjson")
        r = vlib.tlc("NifCopy", cfg, workers=8, timeout=3000, export_to=hists, tag="c11-mc", heap="8g")
        ck.add_tlc("NifCopy(Depth=%d)" % depth, r, "interleavings of edits, saves and destructions after a copy")
        if r.rc != 0:
            raise vlib.InfraError("NifCopy: invariant %s violated in the model" % r.violated)
        tr = os.path.join(wd, "run.ndjson")
        rc, out, err = vlib.run_harness(exe, ["c11-run", hists, tr, ",".join(files)], timeout=7000)
        if rc != 0:
            raise vlib.InfraError("c11-run failed: " + err[-1500:])
        ck.cov["runs"] = json.loads(out.strip().splitlines()[-1])
        ck.cov.setdefault("passes", []).append({"depth": depth, "models": files, **ck.cov["runs"]})
        rr, viols, n = vlib.validate_trace("NifCopyTrace", tr, tag="c11", timeout=6000)
        ck.add_tlc("NifCopyTrace", rr, "CopyEqual / Frame / NoForeign on recorded steps")
        ck.cov["traces_validated_against_impl"] += ck.cov["runs"]["runs"]
        ck.cov["evaluations"] += n
        ck._distinct.update(("b%d:%d" % (depth, i)).encode() for i in range(ck.cov["runs"]["runs"]))
        if viols:
            lines = open(tr).readlines()
            seen = set()
            for v in viols:
                ev = json.loads(lines[v["viol"] - 1])
                act = ev.get("act", {})
                key = (ev.get("file"), act.get("op"), act.get("edit"), act.get("kind"), tuple(sorted(v["clauses"])), ev.get("why"))
                if key in seen:
                    continue
                seen.add(key)
                ck.reject({"check": "C11", "file": ev.get("file"), "op": act.get("op"), "edit": act.get("edit"), "clauses": sorted(v["clauses"])},
                          {"clauses": v["clauses"], "event": ev}, replay={"event": ev})
    with open(hists) as f:
        for i, line in enumerate(f):
            if i == r.exported // 3:
                ck.sample({"behaviour": json.loads(line), "models": files})
    ck.cov["exhaustive"] = True
    ck.assumptions += ["independence is observed through the projection (all query answers + block graph with payload content ids) and through ASan",
                       "after the copy both sides are saved from further constructor copies so that the two models under test stay unsaved"]
    return ck.finish()


def replay(path):
    d = json.load(open(path))
    print(json.dumps(d["detail"])[:1500])
    return 1
