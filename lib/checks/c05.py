"""C05 - every serialised block or string reference is enumerated by its owner.

 For every registered block type x version triple x population mode the typed generator produces a populated instance.
 Static legs: the NiRef / NiStringRef objects that pass through Sync while reading (hooks H2/H3/H4 during Get) and while
 writing (Put of a clone) are compared, as sets of object ordinals, with what GetChildRefs / GetPtrs / GetStringRefs return
 on the same object; GetChildIndices must list the values of GetChildRefs. Dynamic leg: after DeleteBlock, SetBlockOrder
 (rotation) and a rebuild of the string table the values written at every recorded reference / string-index field must be
 what NifGraph's ShiftRef / MapRef predict (no stale index). TLC evaluates NifWire!EnumViol on every record."""
import json
import os

import vlib


def run(tier):
    ck = vlib.Check("C05", "model_checking", tier)
    ck.cov["rule"] = "case = (block type, version, population mode); distinct = distinct cases for which the generator produced an instance"
    exe = vlib.build("O1")
    wd = vlib.workdir("c05")
    tr = os.path.join(wd, "enum.ndjson")
    vers = "OB,FO3,SK,SSE,FO4,FO76,SF" if tier == "quick" else "all"
    # value sweep (see C01): instances with the other layouts of a block (enumeration values, flags, absent strings)
    discr = os.path.join(wd, "discr.ndjson")
    rc, out, err = vlib.run_harness(exe, ["c01-probe", discr, "12", "12" if tier == "quick" else "0"], timeout=3000)
    if rc != 0:
        raise vlib.InfraError("c01-probe failed: " + err[-500:])
    ck.cov["value_sweep_settings"] = json.loads(out.strip().splitlines()[-1])["settings"]
    rc, out, err = vlib.run_harness(exe, ["c05-enum", tr, vers, "0,1,2", discr], timeout=6000)
    if rc != 0:
        raise vlib.InfraError("c05-enum failed: " + err[-1500:])
    ck.cov["runs"] = json.loads(out.strip().splitlines()[-1])
    lines = [l for l in open(tr) if l.startswith('{"e":"enum"') or l.startswith('{"e":"crash"')]
    kept = tr + ".events"
    open(kept, "w").writelines(lines)
    r, viols, n = vlib.validate_trace("NifWireTrace", kept, tag="c05", timeout=3000, stack_mb=256)
    ck.add_tlc("NifWireTrace(enum)", r, "EnumViol on every populated instance")
    ck.cov["traces_validated_against_impl"] += n
    ck.cov["evaluations"] += n
    ck._distinct.update(("e%d" % i).encode() for i in range(n))
    seen = set()
    for v in viols:
        ev = json.loads(lines[v["viol"] - 1])
        c = ev.get("case", {})
        key = (c.get("type"), tuple(sorted(v["clauses"])))
        if key in seen:
            continue
        seen.add(key)
        ck.reject({"check": "C05", "type": c.get("type"), "clauses": sorted(v["clauses"])}, {"clauses": v["clauses"], "event": ev}, replay={"event": ev})
    with_refs = sum(1 for l in lines if '"writeRefs":[]' not in l)
    ck.cov["instances_with_serialised_refs"] = with_refs
    for l in lines:
        if '"type":"NiControllerSequence"' in l and '"mode":1' in l:
            ev = json.loads(l)
            ck.sample({k: ev[k] for k in ("case", "writeRefs", "enumRefsW", "enumPtrsW", "writeStrs", "enumStrsW", "before", "afterDelete")})
            break
    ck.cov["exhaustive"] = True
    ck.assumptions += ["a reference is a 4-byte field transferred at the address of a live NiRef (H2+H4); a string reference is what passes through "
                       "NiStringRef::Read/Write (H3); the string clauses apply to versions with a string table (>= 20.1.0.3) only",
                       "populated means what the typed generator produces (counts <= 3, optional sections on / off / mixed)"]
    return ck.finish()


def replay(path):
    d = json.load(open(path))
    print(json.dumps(d["detail"])[:1500])
    return 1
