"""Shared machinery of the nifly verification framework (python3 stdlib only).

 build()            - builds /repo's *working tree* with -DNIFLY_VERIF plus the conformance harness
 tlc()              - runs TLC under a timeout with its own metadir, parses counts and PrintT records
 Evidence           - writes /verif/evidence/<id>.json per EVIDENCE.schema.json
 KnownFindings      - matches rejections against /verif/known_findings.json (never written at run time)
 report()/finish()  - the VIOLATION / KNOWN-FINDING / MODEL-DRIFT protocol and exit codes
"""
import fcntl
import hashlib
import json
import os
import re
import shutil
import subprocess
import sys
import time

ROOT = os.path.dirname(os.path.dirname(os.path.abspath(__file__)))
REPO = os.environ.get("VERIF_REPO", "/repo")
WORK = os.environ.get("VERIF_WORK", os.path.join(ROOT, "_work"))
# scratch runs against another tree (VERIF_REPO + VERIF_WORK) keep their evidence and replays out of /verif
OUTROOT = WORK if os.environ.get("VERIF_WORK") else ROOT
SPEC = os.path.join(ROOT, "spec")
HARNESS = os.path.join(ROOT, "harness")
SEED = int(os.environ.get("VERIF_SEED", "1") or "1")
NCPU = max(2, min(16, os.cpu_count() or 4))
TLC_CP = "/opt/veriftools/tla/tla2tools.jar:/opt/veriftools/tla/CommunityModules-deps.jar"

os.makedirs(WORK, exist_ok=True)


def log(*a):
    print(*a, flush=True)


def sh(cmd, timeout=None, env=None, cwd=None, check=False, quiet=True):
    e = dict(os.environ)
    if env:
        e.update(env)
    p = subprocess.run(cmd, shell=isinstance(cmd, str), stdout=subprocess.PIPE, stderr=subprocess.STDOUT,
                       env=e, cwd=cwd, timeout=timeout)
    out = p.stdout.decode("utf-8", "replace")
    if check and p.returncode != 0:
        log(out[-4000:])
        raise InfraError("command failed (%d): %s" % (p.returncode, cmd if isinstance(cmd, str) else " ".join(cmd)))
    return p.returncode, out


class InfraError(Exception):
    """Something in the machinery itself failed (build, TLC crash, ...): exit 2, never a VIOLATION."""


# ------------------------------------------------------------------------------------------------
# build
# ------------------------------------------------------------------------------------------------
FLAVOURS = {
    # name: (CXX, flags)
    "O1": ("g++", "-O1 -g0 -DNIFLY_VERIF -Wno-error"),
    "asan": ("clang++", "-O1 -g -fno-omit-frame-pointer -fsanitize=address,undefined "
                        "-fno-sanitize=alignment -fno-sanitize-recover=undefined -DNIFLY_VERIF -Wno-error"),
}


def _lock(name):
    f = open(os.path.join(WORK, name + ".lock"), "w")
    fcntl.flock(f, fcntl.LOCK_EX)
    return f


def build(flavour="O1", repo=None, tag=None):
    """Configure+build libnifly from `repo`'s working tree and the harness against it. Returns path of nvh."""
    repo = repo or REPO
    tag = tag or flavour
    cxx, flags = FLAVOURS[flavour]
    bdir = os.path.join(WORK, "build-" + tag)
    lock = _lock("build-" + tag)
    try:
        t0 = time.time()
        libdir = os.path.join(bdir, "nifly")
        launcher = []
        if shutil.which("ccache"):
            launcher = ["-DCMAKE_CXX_COMPILER_LAUNCHER=ccache"]
        env = {"CCACHE_DIR": os.path.join(WORK, "ccache"), "CCACHE_BASEDIR": "/"}
        stamp = os.path.join(bdir, "repo.path")
        if os.path.exists(stamp) and open(stamp).read() != repo:
            shutil.rmtree(bdir)
        if not os.path.exists(os.path.join(libdir, "build.ninja")):
            os.makedirs(libdir, exist_ok=True)
            sh(["cmake", "-G", "Ninja", "-S", repo, "-B", libdir, "-DBUILD_TESTING=OFF", "-DCMAKE_BUILD_TYPE=None",
                "-DCMAKE_CXX_COMPILER=" + cxx, "-DCMAKE_CXX_FLAGS=" + flags] + launcher, env=env, check=True)
            open(stamp, "w").write(repo)
        sh(["ninja", "-C", libdir, "-j", str(NCPU), "nifly"], env=env, check=True, timeout=1500)
        hdir = os.path.join(bdir, "harness")
        if True:    # always re-configure: the harness sources are globbed
            os.makedirs(hdir, exist_ok=True)
            sh(["cmake", "-G", "Ninja", "-S", HARNESS, "-B", hdir, "-DCMAKE_BUILD_TYPE=None",
                "-DCMAKE_CXX_COMPILER=" + cxx, "-DCMAKE_CXX_FLAGS=" + flags, "-DNIFLY_REPO=" + repo,
                "-DNIFLY_LIB=" + os.path.join(libdir, "src", "libnifly.a")] + launcher, env=env, check=True)
        sh(["ninja", "-C", hdir, "-j", str(NCPU)], env=env, check=True, timeout=1500)
        exe = os.path.join(hdir, "nvh")
        log("[build] %s ready in %.1fs (%s)" % (tag, time.time() - t0, repo))
        return exe
    finally:
        lock.close()


# ------------------------------------------------------------------------------------------------
# TLC
# ------------------------------------------------------------------------------------------------
class TlcResult:
    def __init__(self):
        self.rc = None
        self.out = ""
        self.generated = 0
        self.distinct = 0
        self.depth = 0
        self.records = []      # parsed PrintT(ToJson(..)) / PrintT(<<..>>) lines that are JSON strings
        self.violated = None   # name of violated invariant, if any
        self.wall = 0.0

    @property
    def ok(self):
        return self.rc == 0


_RE_STATES = re.compile(r"(\d+) states generated, (\d+) distinct states found")
_RE_DEPTH = re.compile(r"depth of the complete state graph search is (\d+)")
_RE_INV = re.compile(r"Invariant (\S+) is violated")


def tlc(module, cfg, workers=None, timeout=900, env=None, simulate=None, depth=None, extra=None, tag=None,
        stack_mb=64, heap="8g", export_to=None, seed=None, cwd=None, max_records=200000, allow_fail=False):
    """Run TLC on spec/<module>.tla with spec/<cfg>. Returns TlcResult. rc: 0 ok, 12 invariant violated, ...
    Lines that TLC prints as a quoted JSON string (PrintT(ToJson(..))) are collected: into the file export_to
    (one decoded JSON value per line) when given, else into result.records."""
    _enough()
    tag = tag or (module + "-" + os.path.splitext(os.path.basename(cfg))[0])
    meta = os.path.join(WORK, "tlc", tag + "-%d" % os.getpid())
    shutil.rmtree(meta, ignore_errors=True)
    os.makedirs(meta, exist_ok=True)
    workers = workers or min(8, NCPU)
    cmd = ["timeout", str(int(timeout)), "java", "-XX:+UseParallelGC", "-Xmx" + heap, "-Xss%dm" % stack_mb,
           "-XX:ThreadStackSize=%d" % (stack_mb * 1024), "-cp", TLC_CP, "tlc2.TLC", "-workers", str(workers),
           "-metadir", os.path.join(meta, "states"), "-config", cfg, "-noGenerateSpecTE"]
    if simulate:
        cmd += ["-simulate", "num=%d" % simulate, "-depth", str(depth or 20)]
    if seed is not None:
        cmd += ["-seed", str(seed)]
    if extra:
        cmd += extra
    cmd += [module + ".tla"]
    r = TlcResult()
    t0 = time.time()
    e = dict(os.environ)
    e.pop("JAVA_TOOL_OPTIONS", None)
    if env:
        e.update({k: str(v) for k, v in env.items()})
    outpath = os.path.join(meta, "tlc.out")
    with open(outpath, "wb") as of:
        p = subprocess.run(cmd, stdout=of, stderr=subprocess.STDOUT, env=e, cwd=cwd or SPEC)
    r.wall = time.time() - t0
    r.rc = p.returncode
    text = []
    ex = open(export_to, "w") if export_to else None
    r.exported = 0
    with open(outpath, "r", errors="replace") as f:
        for line in f:
            line = line.rstrip("\n")
            if line.startswith('"') and line.endswith('"') and len(line) > 2:
                try:
                    sj = json.loads(line)
                except Exception:
                    text.append(line)
                    continue
                if sj[:1] in "{[":
                    if ex:
                        ex.write(sj + "\n")
                        r.exported += 1
                    elif len(r.records) < max_records:
                        try:
                            r.records.append(json.loads(sj))
                        except Exception:
                            text.append(line)
                    continue
            text.append(line)
    if ex:
        ex.close()
    r.out = "\n".join(text)
    shutil.rmtree(meta, ignore_errors=True)
    for m in _RE_STATES.finditer(r.out):
        r.generated, r.distinct = int(m.group(1)), int(m.group(2))
    m = _RE_DEPTH.search(r.out)
    if m:
        r.depth = int(m.group(1))
    m = _RE_INV.search(r.out)
    if m:
        r.violated = m.group(1)
    if r.rc == 124:
        raise InfraError("TLC timed out after %ds: %s %s" % (timeout, module, cfg))
    if r.rc not in (0, 12, 13) and not allow_fail:
        log(r.out[-6000:])
        raise InfraError("TLC failed with exit %d on %s %s" % (r.rc, module, cfg))
    return r


def validate_trace(module, trace_path, tag=None, timeout=900, stack_mb=256, heap="8g", env=None, _whole=False):
    """Trace validation: TLC walks the ndjson log with the single variable l; the trace spec prints one JSON
    record {"viol": l, "clauses": [...]} per rejected line. Returns (TlcResult, violations, nlines).
    A recorded step on which the relation cannot even be evaluated (TLC stops with an evaluation error at line l: an index
    outside a sequence, a missing field, ...) is outside the domain the specification is stated on: it is reported as a
    rejection of that line (clause RecordOutsideSpecDomain) and validation continues with the remaining lines. This can
    only happen with changed code: on the unchanged tree every recorded step evaluates."""
    if not _whole and os.path.getsize(trace_path) > CHUNK_BYTES:
        return _validate_chunked(module, trace_path, tag, timeout, stack_mb, heap, env)
    lines = [line for line in open(trace_path) if line.strip()]
    n = len(lines)
    idx = list(range(1, n + 1))           # original line numbers of the lines still in play
    cur = trace_path
    outside = []
    for attempt in range(12):
        e = {"TRACE": cur}
        if env:
            e.update(env)
        r = tlc(module, "Trace.cfg", workers=1, timeout=timeout, env=e, tag=tag or module, stack_mb=stack_mb, heap=heap, allow_fail=True)
        if r.rc == 0:
            break
        at = re.findall(r"^l = (\d+)\s*$", r.out, re.M)
        if r.rc in (12, 13) or not at or int(at[-1]) < 1 or int(at[-1]) > len(idx):
            log(r.out[-4000:])
            raise InfraError("trace validation run of %s failed (exit %d)" % (module, r.rc))
        bad = int(at[-1])
        log("trace line %d cannot be evaluated by %s: %s" % (idx[bad - 1], module, " ".join(r.out[-1200:].split())[:600]))
        outside.append(idx[bad - 1])
        del idx[bad - 1]
        cur = trace_path + ".evaluable"
        with open(cur, "w") as f:
            f.writelines(lines[k - 1] for k in idx)
    else:
        # a dozen records the relation cannot be evaluated on: they are reported, the rest of this trace is not judged
        log("trace validation of %s: more than 12 lines cannot be evaluated; the remaining lines are not judged" % module)
        return r, [{"viol": k, "clauses": ["RecordOutsideSpecDomain"]} for k in outside], n
    if r.distinct != len(idx) + 1:
        log(r.out[-4000:])
        raise InfraError("trace spec %s consumed %d of %d lines" % (module, r.distinct - 1, len(idx)))
    viols = [dict(x, viol=idx[x["viol"] - 1]) for x in r.records if isinstance(x, dict) and "viol" in x]
    viols += [{"viol": k, "clauses": ["RecordOutsideSpecDomain"]} for k in outside]
    for x in r.records:
        if isinstance(x, dict) and "drift" in x:
            x["drift"] = idx[x["drift"] - 1]
    if cur != trace_path and os.path.exists(cur):
        os.remove(cur)
    return r, viols, n


CHUNK_BYTES = int(os.environ.get("VERIF_CHUNK_MB", "120")) * 1024 * 1024


def _validate_chunked(module, trace_path, tag, timeout, stack_mb, heap, env):
    """A long trace: the recorded steps are judged one by one (the trace specs carry no state from line to line), so the
    log is cut at line boundaries into pieces that are validated by several TLC processes side by side; line numbers of the
    rejected records are those of the whole log."""
    import concurrent.futures
    parts = []            # (path, first line number - 1)
    f = None
    size = 0
    lineno = 0
    with open(trace_path) as src:
        for line in src:
            if not line.strip():
                continue
            if f is None or size > CHUNK_BYTES:
                if f:
                    f.close()
                path = "%s.part%d" % (trace_path, len(parts))
                parts.append((path, lineno))
                f = open(path, "w")
                size = 0
            f.write(line)
            size += len(line)
            lineno += 1
    if f:
        f.close()
    log("trace of %d lines validated in %d pieces" % (lineno, len(parts)))
    t0 = time.time()

    def one(k):
        path, off = parts[k]
        r, viols, n = validate_trace(module, path, tag="%s-p%d" % (tag or module, k), timeout=timeout, stack_mb=stack_mb, heap="6g", env=env, _whole=True)
        os.remove(path)
        return k, r, viols, n

    total = TlcResult()
    total.rc = 0
    total.distinct = 1
    allv = []
    nlines = 0
    with concurrent.futures.ThreadPoolExecutor(max_workers=5) as ex:
        for k, r, viols, n in ex.map(one, range(len(parts))):
            off = parts[k][1]
            total.distinct += r.distinct - 1
            total.generated += r.generated
            total.depth += max(0, r.depth - 1)
            total.out = r.out
            for v in viols:
                allv.append(dict(v, viol=v["viol"] + off))
            for x in r.records:
                if isinstance(x, dict) and "drift" in x:
                    x["drift"] += off
                if isinstance(x, dict) and "viol" in x:
                    x["viol"] += off
                total.records.append(x)
            nlines += n
    total.wall = time.time() - t0
    return total, allv, nlines


def tlc_simulate_count(out):
    m = re.search(r"(\d+) states checked", out)
    return int(m.group(1)) if m else 0


# ------------------------------------------------------------------------------------------------
# evidence / findings / verdict
# ------------------------------------------------------------------------------------------------
class KnownFindings:
    def __init__(self):
        p = os.path.join(ROOT, "known_findings.json")
        self.items = json.load(open(p))["findings"] if os.path.exists(p) else []

    def match(self, prop, sig):
        """sig: dict describing the rejected record. Returns the finding that lists it, or None."""
        for f in self.items:
            if f.get("status") != "known" or f.get("property") != prop:
                continue
            m = f.get("match", {})
            if all(_sigeq(sig.get(k), v) for k, v in m.items()):
                return f
        return None


def _sigeq(a, b):
    if isinstance(b, dict) and isinstance(a, dict):
        return all(_sigeq(a.get(k), v) for k, v in b.items())
    return a == b


class StopEarly(Exception):
    """Enough violations are established (the reporting cap is reached): the remaining stages of the check are not run."""


def _enough():
    ck = CURRENT
    if ck is not None and len(ck.violations) >= 25 and os.environ.get("VERIF_RUN_TO_END", "") != "1":
        raise StopEarly()


CURRENT = None     # the Check of this process (bin/check finishes it when the check's own code fails after violations were found)


class Check:
    """One run of one property's check: accumulates coverage, violations, findings; writes evidence; exits."""

    def __init__(self, prop, level, tier):
        self.prop = prop
        self.level = level
        self.tier = tier
        self.t0 = time.time()
        self.cov = {"states": 0, "transitions": 0, "traces_validated_against_impl": 0, "samples": [],
                    "evaluations": 0, "distinct_nontrivial": 0, "rule": "", "tlc_runs": []}
        self.assumptions = []
        self.violations = []
        self.known = []
        self.drift = []
        self.kf = KnownFindings()
        self._distinct = set()
        global CURRENT
        CURRENT = self

    # -- coverage helpers
    def add_tlc(self, name, r, note=""):
        self.cov["states"] += r.distinct
        self.cov["transitions"] += r.generated
        self.cov["tlc_runs"].append({"run": name, "distinct_states": r.distinct, "states_generated": r.generated,
                                     "depth": r.depth, "wall_s": round(r.wall, 1), "note": note})

    def sample(self, s, cap=6):
        if len(self.cov["samples"]) < cap:
            self.cov["samples"].append(s)

    def count_case(self, key, nontrivial=True):
        self.cov["evaluations"] += 1
        if nontrivial:
            h = hashlib.sha1(json.dumps(key, sort_keys=True).encode()).digest()[:10]
            self._distinct.add(h)

    # -- verdicts
    def reject(self, sig, detail, replay=None):
        """A record produced by the real code was rejected by the property-level relation."""
        f = self.kf.match(self.prop, sig)
        if f is not None:
            line = "KNOWN-FINDING: property=%s %s" % (self.prop, f["what"])
            if line not in self.known:
                self.known.append(line)
                log(line)
            return False
        if len(self.violations) >= 25:      # keep reporting bounded; the count stays exact
            self.violations.append({"sig": sig})
            return True
        rp = self._save_replay(sig, detail, replay)
        self.violations.append({"sig": sig, "detail": detail, "replay": rp})
        log("VIOLATION property=%s replay=%s" % (self.prop, rp))
        log("  detail: %s" % json.dumps(detail)[:700])
        return True

    def note_drift(self, what):
        if len(self.drift) < 50:
            self.drift.append(what)
        if len(self.drift) <= 5:
            log("MODEL-DRIFT (informational) property=%s %s" % (self.prop, json.dumps(what)[:600]))

    def _save_replay(self, sig, detail, replay):
        d = os.path.join(OUTROOT, "replays", self.prop)
        os.makedirs(d, exist_ok=True)
        h = hashlib.sha1(json.dumps(sig, sort_keys=True).encode()).hexdigest()[:12]
        p = os.path.join(d, h + ".json")
        json.dump({"property": self.prop, "sig": sig, "detail": detail, "replay": replay, "seed": SEED,
                   "tier": self.tier}, open(p, "w"), indent=1)
        return p

    def finish(self):
        self.cov["distinct_nontrivial"] = len(self._distinct)
        ev = {"property_id": self.prop, "tier": self.tier, "seed": SEED, "level": self.level, "coverage": self.cov,
              "assumptions": self.assumptions, "wall_s": round(time.time() - self.t0, 1),
              "violations": len(self.violations), "known_findings": self.known, "model_drift": self.drift}
        if not self.cov["samples"]:
            self.cov["samples"] = ["(none)"]
        os.makedirs(os.path.join(OUTROOT, "evidence"), exist_ok=True)
        p = os.path.join(OUTROOT, "evidence", self.prop + ".json")
        json.dump(ev, open(p + ".tmp", "w"), indent=1)
        os.replace(p + ".tmp", p)
        log("[%s] %s tier: states=%d transitions=%d impl-traces=%d evaluations=%d distinct=%d violations=%d known=%d drift=%d wall=%.0fs"
            % (self.prop, self.tier, self.cov["states"], self.cov["transitions"],
               self.cov["traces_validated_against_impl"], self.cov["evaluations"], self.cov["distinct_nontrivial"],
               len(self.violations), len(self.known), len(self.drift), ev["wall_s"]))
        return 1 if self.violations else 0


def read_ndjson(path):
    out = []
    with open(path) as f:
        for line in f:
            line = line.strip()
            if line:
                out.append(json.loads(line))
    return out


def workdir(name):
    d = os.path.join(WORK, name)
    os.makedirs(d, exist_ok=True)
    return d


def run_harness(exe, args, timeout=1200, env=None, stdin=None, cwd=None):
    """Run the conformance harness; returns (rc, stdout). A harness that dies is an InfraError unless the
    caller asked for crash observation (those commands fork internally and report Crash events)."""
    _enough()
    e = dict(os.environ)
    e["VERIF_SEED"] = str(SEED)
    e["NIFLY_REPO"] = REPO
    e.setdefault("ASAN_OPTIONS", "detect_leaks=0:abort_on_error=1:allocator_may_return_null=1")
    e.setdefault("UBSAN_OPTIONS", "print_stacktrace=1:halt_on_error=1")
    if env:
        e.update(env)
    p = subprocess.run(["timeout", str(int(timeout)), exe] + args, stdout=subprocess.PIPE, stderr=subprocess.PIPE,
                       env=e, input=stdin, cwd=cwd)
    if p.returncode == 124:
        raise InfraError("harness timed out: %s" % " ".join(args))
    return p.returncode, p.stdout.decode("utf-8", "replace"), p.stderr.decode("utf-8", "replace")
