// C04: the default save only permutes blocks and prunes unreferenced ones.
//   c04-graphs <states.ndjson> <out.ndjson> <versionsCsv> <every> <offset>
//       every graph enumerated by TLC (NifGraphMC, alphabet "sort") is built from real classes in each version and
//       PrettySortBlocks (twice), SetShapeOrder(name lists), Optimize and Save(default, twice) are executed; every
//       step is logged with the projected state before and after (uids, masked content ids) for trace validation.
//   c04-samples <out.ndjson>   the same operations on the sample files
#include "graph.hpp"
#include "hooks.hpp"

using namespace nifly;
using namespace vh;

namespace {
ProjOpts popts() {
	ProjOpts po;
	po.cids = true;
	po.names = true;
	return po;
}

void updateAllBounds(NifFile& nif) {
	for (auto s : nif.GetShapes()) s->UpdateBounds();
}

struct Ctx {
	std::string caseJson; // identifies the input (graph id / file name, version)
	std::string* out;
	ContentIds cids;
	void sortEvent(const char* op, const std::string& extra, const std::string& pre, const std::string& post, const std::string& file = "") {
		*out += "{\"e\":\"sort\",\"op\":\"";
		*out += op;
		*out += "\",\"case\":" + caseJson + extra + ",\"pre\":" + pre + ",\"post\":" + post;
		if (!file.empty()) *out += ",\"file\":" + file;
		*out += "}\n";
	}
};

// all operations of the check on one model (the model is copied for each operation)
void runOps(NifFile& base, Ctx& cx, const std::vector<std::vector<std::string>>& orders) {
	ProjOpts po = popts();
	{
		NifFile c(base);
		UidMap um;
		std::string pre = project(c, um, po, &cx.cids);
		c.PrettySortBlocks();
		std::string mid = project(c, um, po, &cx.cids);
		cx.sortEvent("Sort", "", pre, mid);
		c.PrettySortBlocks();
		std::string post = project(c, um, po, &cx.cids);
		cx.sortEvent("Sort2", "", mid, post);
	}
	for (auto& names : orders) {
		NifFile c(base);
		UidMap um;
		std::string pre = project(c, um, po, &cx.cids);
		c.SetShapeOrder(names);
		std::string post = project(c, um, po, &cx.cids);
		JArr ja;
		for (auto& n : names) ja.add(n);
		cx.sortEvent("ShapeOrder", ",\"names\":" + ja.done(), pre, post);
	}
	{
		NifFile c(base);
		updateAllBounds(c);
		UidMap um;
		std::string pre = project(c, um, po, &cx.cids);
		c.Optimize();
		std::string post = project(c, um, po, &cx.cids);
		cx.sortEvent("Optimize", "", pre, post);
	}
	{
		NifFile c(base);
		updateAllBounds(c);
		UidMap um;
		std::string pre0 = project(c, um, po, &cx.cids);
		saveToString(c, false, false); // raw save first: normalises (drops empty array entries, fills sizes/strings)
		std::string pre = project(c, um, po, &cx.cids);
		// what that normalisation may do to the model: drop emptied entries of reference lists, nothing else
		cx.sortEvent("SaveRaw", "", pre0, pre);
		std::string bytes = saveToString(c, true, true);
		std::string mid = project(c, um, po, &cx.cids);
		cx.sortEvent("SaveDefault", "", pre, mid, fileAbstract(bytes, &c, cx.cids));
		std::string bytes2 = saveToString(c, true, true);
		std::string post = project(c, um, po, &cx.cids);
		cx.sortEvent("SaveDefault2", "", mid, post, fileAbstract(bytes2, &c, cx.cids));
	}
}

std::vector<std::vector<std::string>> nameLists(size_t k, const std::vector<std::string>& alphabet, size_t cap) {
	std::vector<std::vector<std::string>> r;
	if (k == 0 || k > 4) return r;
	size_t total = 1;
	for (size_t i = 0; i < k; i++) total *= alphabet.size();
	for (size_t c = 0; c < total && r.size() < cap; c++) {
		std::vector<std::string> l;
		size_t x = c;
		for (size_t i = 0; i < k; i++) {
			l.push_back(alphabet[x % alphabet.size()]);
			x /= alphabet.size();
		}
		r.push_back(l);
	}
	return r;
}

int cmdGraphs(int argc, char** argv) {
	if (argc < 6) return 2;
	auto lines = readLines(argv[1]);
	std::string outPath = argv[2];
	std::vector<std::string> versions;
	{
		std::stringstream ss(argv[3]);
		std::string v;
		while (std::getline(ss, v, ',')) versions.push_back(v);
	}
	size_t every = strtoul(argv[4], nullptr, 10), offset = strtoul(argv[5], nullptr, 10);
	// only well-formed graphs (flag computed by TLC) belong to C04's quantifier; sample every n-th of those
	std::vector<size_t> picked;
	size_t wfCount = 0;
	for (size_t i = 0; i < lines.size(); i++) {
		if (lines[i].find("\"wf\":true") == std::string::npos) continue;
		if (every <= 1 || wfCount % every == offset % every) picked.push_back(i);
		wfCount++;
	}
	{ Out trunc(outPath); }
	size_t crashes = runForkedCases(
		picked.size() * versions.size(), outPath, 20,
		[&](size_t k, std::string& out) {
			size_t gi = picked[k / versions.size()];
			const std::string& ver = versions[k % versions.size()];
			JV rec = jparse(lines[gi]);
			const JV& st = rec["g"];
			NifFile nif;
			nif.Create(versionByName(ver));
			auto& hdr = nif.GetHeader();
			// the exported state lists all blocks including the root created by Create(): rebuild from scratch
			hdr.DeleteBlock(0u);
			size_t nshapes = 0;
			for (auto& b : st["blocks"].a) {
				auto o = makeBlock(b, hdr.GetVersion());
				if (!o) return;
				if (dynamic_cast<NiShape*>(o.get())) nshapes++;
				hdr.AddBlock(std::move(o));
			}
			nif.LinkGeomData();
			Ctx cx;
			cx.out = &out;
			JObj cj;
			cj.add("graph", (long long) gi).add("ver", ver);
			cx.caseJson = cj.done();
			runOps(nif, cx, nameLists(nshapes, {"A", "B", "Z"}, 27));
		},
		[&](size_t k, const std::string& why, FILE* out) {
			size_t gi = picked[k / versions.size()];
			fprintf(out, "{\"e\":\"crash\",\"case\":{\"graph\":%zu,\"ver\":\"%s\"},\"why\":%s,\"model\":%s}\n", gi, versions[k % versions.size()].c_str(),
					J::str(why).s.c_str(), lines[gi].c_str());
		});
	printf("{\"wellformed\":%zu,\"graphs\":%zu,\"cases\":%zu,\"crashes\":%zu}\n", wfCount, picked.size(), picked.size() * versions.size(), crashes);
	return 0;
}

int cmdSamples(int argc, char** argv) {
	if (argc < 2) return 2;
	std::string outPath = argv[1];
	auto files = sampleFiles();
	{ Out trunc(outPath); }
	size_t crashes = runForkedCases(
		files.size(), outPath, 120,
		[&](size_t k, std::string& out) {
			NifFile nif;
			if (nif.Load(samplePath(files[k])) != 0) return;
			Ctx cx;
			cx.out = &out;
			JObj cj;
			cj.add("file", files[k]);
			cx.caseJson = cj.done();
			// shape orders: identity, reversed, with a duplicate, with a missing name
			std::vector<std::vector<std::string>> orders;
			auto names = nif.GetShapeNames();
			if (!names.empty() && names.size() <= 12) {
				orders.push_back(names);
				auto rev = names;
				std::reverse(rev.begin(), rev.end());
				orders.push_back(rev);
				if (names.size() >= 2) {
					auto dup = names;
					dup[1] = dup[0];
					orders.push_back(dup);
					auto miss = names;
					miss[0] = "__no_such_shape__";
					orders.push_back(miss);
				}
			}
			runOps(nif, cx, orders);
			// the same model with entries of its longer reference lists emptied (what deleting blocks leaves behind): two
			// empty entries in front of used ones in child lists, extra-data lists and the other reference arrays
			{
				NifFile ed;
				if (ed.Load(samplePath(files[k])) != 0) return;
				size_t emptied = 0;
				for (uint32_t b = 0; b < ed.GetHeader().GetNumBlocks(); b++) {
					auto o = ed.GetHeader().GetBlock<NiObject>(b);
					if (!o) continue;
					auto emptySome = [&](NiRefArray& arr) {
						if (arr.GetSize() < 4) return;
						arr.SetBlockRef(0, NIF_NPOS);
						arr.SetBlockRef(2, NIF_NPOS);
						emptied++;
					};
					if (auto n = dynamic_cast<NiNode*>(o)) emptySome(n->childRefs);
					if (auto net = dynamic_cast<NiObjectNET*>(o)) emptySome(net->extraDataRefs);
					if (auto av = dynamic_cast<NiAVObject*>(o)) emptySome(av->propertyRefs);
					if (auto cm = dynamic_cast<NiControllerManager*>(o)) emptySome(cm->controllerSequenceRefs);
				}
				if (emptied) {
					JObj cj2;
					cj2.add("file", files[k]).add("variant", "emptied-entries");
					cx.caseJson = cj2.done();
					runOps(ed, cx, {});
				}
			}
		},
		[&](size_t k, const std::string& why, FILE* out) {
			fprintf(out, "{\"e\":\"crash\",\"case\":{\"file\":%s},\"why\":%s}\n", J::str(files[k]).s.c_str(), J::str(why).s.c_str());
		});
	printf("{\"files\":%zu,\"crashes\":%zu}\n", files.size(), crashes);
	return 0;
}
Reg r1("c04-graphs", cmdGraphs);
Reg r2("c04-samples", cmdSamples);
} // namespace
