#pragma once
#include "graph.hpp"
namespace vh {
struct SynthInfo {
	size_t bytesServed = 0;
	bool exhausted = false;
	int scalars = 0;
	std::vector<const void*> readRefs, readStrs; // NiRef / NiStringRef objects that were read (addresses inside the block)
	uint32_t blockId = 0;
	uint64_t exact = 0;            // hash of the exact sequence of transfers
	size_t ncodes = 0;             // its length
	uint64_t tape = 0;             // hash of the sequence of (field kind, size, is-reference, is-string) the reader asked for
	std::vector<int> scalarKinds;  // FieldKind (or -1 untyped, -2 reference, -3 string) of every scalar transfer, by ordinal
	// block-level round trip of the synthesised instance, done when asked for (wantRoundTrip): w1 = Put(instance),
	// w2 = Put(Load(w1)), w3 = Put(Load(w2)); stable means w3 = w2 (what the library wrote re-encodes to itself)
	std::string served;            // the bytes the generator handed to the reader for this block, in order
	bool wantRoundTrip = false;
	int roundTrip = -1;            // -1 not done / not possible, 0 stable, 1 unstable
};
std::vector<std::string> allBlockTypes();
const std::vector<std::pair<std::string, nifly::NiVersion>>& synthVersions();
nifly::NiVersion synthVersion(const std::string& name);
// Creates a model [root, node, node, <synthesised block of `type`>] in the given version. mode 0: optional sections off,
// 1: on with counts 2, 2: seeded mixture. boostAt >= 0 re-generates that scalar field with a large value.
// Returns false when the generator ran out of budget (a count blew up) - such instances are discarded.
// boostVal >= 0: the value that field gets instead (value sweep: which small values steer the layout of the block).
bool synthFile(nifly::NifFile& nif, const std::string& type, const std::string& ver, int mode, uint64_t seed, int boostAt = -1,
			   SynthInfo* info = nullptr, long long boostVal = -1);
// the same with a list of (scalar ordinal, value) overrides (value -1 = 0xFFFFFFFF: "no string" / "no block")
bool synthFileOv(nifly::NifFile& nif, const std::string& type, const std::string& ver, int mode, uint64_t seed,
				 const std::vector<std::pair<int, long long>>& overrides, SynthInfo* info = nullptr);
}
