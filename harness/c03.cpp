// C03: blocks of unknown type survive load and save untouched.
//   c03-tables <out.ndjson>                     type tables of the sample files that carry block sizes
//   c03-run <cases.ndjson> <out.ndjson>         (file, U): relabel the types in U (first letter -> '?'-free unknown name) in
//                                               the bytes, Load, Save (default and raw), log input and output as an
//                                               independent reader sees them
#include "hooks.hpp"

using namespace nifly;
using namespace vh;

namespace {
// same-length rename inside the header's type table: first character replaced, so no offset moves
std::string relabelName(const std::string& t) {
	std::string r = t;
	r[0] = (r[0] == 'Q') ? 'Z' : 'Q';
	return r;
}

bool relabel(std::string& bytes, const std::vector<std::string>& U) {
	HeaderInfo h = parseHeader(bytes);
	if (!h.ok || !h.hasSizes) return false;
	// locate the type table: it follows numBlockTypes(u16); search each length-prefixed name inside the header region
	for (auto& t : U) {
		std::string needle;
		uint32_t n = (uint32_t) t.size();
		needle.append((const char*) &n, 4);
		needle += t;
		size_t p = bytes.find(needle);
		if (p == std::string::npos || p > h.hdrLen) return false;
		bytes[p + 4] = relabelName(t)[0];
	}
	return true;
}

// make two entries of the header string table equal (same length, so no offset moves): the table of a file may hold a
// text twice, and indices stored inside opaque blocks may designate either entry
bool duplicateString(std::string& bytes) {
	HeaderInfo h = parseHeader(bytes);
	if (!h.ok) return false;
	for (size_t j = 1; j < h.strings.size(); j++)
		for (size_t i = 0; i < j; i++)
			if (!h.strings[i].empty() && h.strings[i].size() == h.strings[j].size() && h.strings[i] != h.strings[j]) {
				std::string needle;
				uint32_t n = (uint32_t) h.strings[j].size();
				needle.append((const char*) &n, 4);
				needle += h.strings[j];
				size_t p = bytes.rfind(needle, h.hdrLen);
				if (p == std::string::npos) continue;
				bytes.replace(p + 4, n, h.strings[i]);
				return true;
			}
	return false;
}

int cmdTables(int argc, char** argv) {
	if (argc < 2) return 2;
	Out out(argv[1]);
	auto inputs = sampleFiles();
	// animation files (no node at all): built through the API, no sample is one
	inputs.push_back("built:animation:SSE");
	inputs.push_back("built:animation:FO4");
	for (auto& f : inputs) {
		std::string bytes = inputBytes(f);
		HeaderInfo h = parseHeader(bytes);
		if (!h.ok || !h.hasSizes) continue;
		NifFile probe;
		if (loadFromString(probe, bytes) != 0) continue;
		JArr ts;
		for (auto& t : h.types) ts.add(t);
		JObj o;
		o.add("file", f).add("types", ts);
		out.line(o.done());
	}
	return 0;
}

int cmdRun(int argc, char** argv) {
	if (argc < 3) return 2;
	auto cases = readLines(argv[1]);
	std::string outPath = argv[2];
	{ Out trunc(outPath); }
	size_t crashes = runForkedCases(
		cases.size(), outPath, 40,
		[&](size_t k, std::string& out) {
			JV c = jparse(cases[k]);
			std::string bytes = inputBytes(c["file"].s);
			std::vector<std::string> U;
			for (auto& t : c["U"].a) U.push_back(t.s);
			if (!relabel(bytes, U)) return;
			JArr ju0;
			for (auto& t : U) ju0.add(relabelName(t));
			const std::string uRelabelled = ju0.done();
			// variants: plain load+save; strings of known blocks edited before saving; a copy (constructed / assigned) is saved
			const char* variants[] = {"plain", "edited", "copied", "assigned", "duplicate-strings", "zero-sized-unknown-only", "shape-order-requested",
									  "long-type-name", "forward-only-stream"};
			const std::string original = bytes;
			const std::string pristine = inputBytes(c["file"].s);
			for (int vi = 0; vi < 9; vi++)
				for (int def = 0; def < 2; def++) {
					if (vi >= 2 && ((k + def) % 2)) continue; // copies: alternate the save option to bound the work
					bytes = original;
					std::string uJson = uRelabelled;
					if (vi == 4 && !duplicateString(bytes)) continue;
					if (vi == 5) {
						// the only block of an unknown type is an empty one (a marker block appended by a tool): the file as
						// shipped plus one zero-sized block whose type the library has no class for
						if (U.size() != 1) continue;
						NifFile mk;
						if (loadFromString(mk, pristine) != 0) continue;
						mk.GetHeader().AddBlock(std::make_unique<NiUnknown>(0u));
						bytes = saveToString(mk, false, false);
						HeaderInfo hh = parseHeader(bytes);
						if (!hh.ok || !hh.hasSizes || hh.sizes.empty() || hh.sizes.back() != 0) continue;
						JArr j1;
						j1.add(hh.types[hh.tidx.back()]);
						uJson = j1.done();
					}
					if (vi == 7) {
						// the first unknown type has a name longer than any the library knows (64, 93 or 200 characters)
						const std::string was = relabelName(U[0]);
						std::string needle;
						uint32_t n = (uint32_t) was.size();
						needle.append((const char*) &n, 4);
						needle += was;
						HeaderInfo hh = parseHeader(bytes);
						size_t p = bytes.find(needle);
						if (!hh.ok || p == std::string::npos || p > hh.hdrLen) continue;
						const size_t lens[] = {64, 93, 200};
						std::string longName = was + std::string(lens[k % 3] - std::min(lens[k % 3], was.size()), 'x');
						std::string repl;
						uint32_t ln = (uint32_t) longName.size();
						repl.append((const char*) &ln, 4);
						repl += longName;
						bytes.replace(p, needle.size(), repl);
						JArr j7;
						j7.add(longName);
						for (size_t q = 1; q < U.size(); q++) j7.add(relabelName(U[q]));
						uJson = j7.done();
					}
					ContentIds ids;
					NifFile loaded;
					int rc;
					if (vi == 8) {
						// the file arrives through a stream that cannot seek or tell (an archive member being unpacked)
						struct ForwardOnly : std::streambuf {
							explicit ForwardOnly(std::string& b) { setg(&b[0], &b[0], &b[0] + b.size()); }
						} fb(bytes);
						std::istream is(&fb);
						rc = loaded.Load(is);
					}
					else
						rc = loadFromString(loaded, bytes);
					JObj ev;
					ev.add("e", "unknown").add("file", c["file"].s).raw("U", uJson).add("opt", def ? "default" : "raw").add("variant", variants[vi]).add("load", rc);
					if (rc == 0) {
						ev.add("hasUnknown", loaded.HasUnknown());
						NifFile copy1(vi == 2 ? loaded : NifFile());
						NifFile copy2;
						if (vi == 3) copy2 = loaded;
						NifFile& nif = vi == 2 ? copy1 : (vi == 3 ? copy2 : loaded);
						if (vi == 6) {
							// an explicit shape order is requested (reversed names): with unknown blocks nothing may move
							auto names = nif.GetShapeNames();
							std::reverse(names.begin(), names.end());
							nif.SetShapeOrder(names);
						}
						if (vi == 1) {
							// rename every known node and retarget the first texture slot of every shape
							for (auto n : nif.GetNodes()) n->name.get() += "_renamed";
							for (auto sh : nif.GetShapes()) {
								std::string t = "textures\\c03\\edited.dds";
								nif.SetTextureSlot(sh, t, 0);
							}
						}
						std::string o = saveToString(nif, def != 0, def != 0);
						ev.raw("f", fileAbstract(bytes, nullptr, ids)).raw("g", fileAbstract(o, nullptr, ids));
					}
					out += ev.done() + "\n";
				}
		},
		[&](size_t k, const std::string& why, FILE* out) { fprintf(out, "{\"e\":\"crash\",\"case\":%s,\"why\":%s}\n", cases[k].c_str(), J::str(why).s.c_str()); });
	printf("{\"cases\":%zu,\"crashes\":%zu}\n", cases.size(), crashes);
	return 0;
}
Reg r1("c03-tables", cmdTables);
Reg r2("c03-run", cmdRun);
} // namespace
