// C20: transform algebra and bounding spheres.
//   c20-replay <cases.ndjson> <out.ndjson> <sampleEvery>   TLC-enumerated exact lattice cases on the real functions
//   c20-random <out.ndjson> <count>                         rotation-vector round trips, point sets, shape bounds histories
#include "graph.hpp"

using namespace nifly;
using namespace vh;

namespace {
const double K = 1000.0; // implementation values are logged as round(x * K)
long long sc(double x) { return (long long) llround(x * K); }
double qd(const JV& q) { return double(q.a[0].n) / double(q.a[1].n); }
Vector3 qvec(const JV& v) { return Vector3(float(qd(v.a[0])), float(qd(v.a[1])), float(qd(v.a[2]))); }
Matrix3 qmat(const JV& m) {
	Matrix3 r;
	for (int i = 0; i < 3; i++) r[i] = qvec(m.a[i]);
	return r;
}
MatTransform qxf(const JV& t) {
	MatTransform x;
	x.translation = qvec(t["t"]);
	x.rotation = qmat(t["R"]);
	x.scale = float(qd(t["s"]));
	return x;
}
std::string jv(const Vector3& v) {
	JArr a;
	a.add(sc(v.x)).add(sc(v.y)).add(sc(v.z));
	return a.done();
}
std::string jm(const Matrix3& m) {
	JArr a;
	for (int i = 0; i < 3; i++) a.raw(jv(m[i]));
	return a.done();
}
std::string jx(const MatTransform& t) {
	JObj o;
	o.raw("t", jv(t.translation)).raw("R", jm(t.rotation)).add("s", sc(t.scale));
	return o.done();
}
bool nearD(double a, double b) { return std::fabs(a - b) <= 2e-4 * (1 + std::fabs(b)) && std::isfinite(a); }
bool nearV(const Vector3& v, const JV& q) { return nearD(v.x, qd(q.a[0])) && nearD(v.y, qd(q.a[1])) && nearD(v.z, qd(q.a[2])); }
bool nearM(const Matrix3& m, const JV& q) { return nearV(m[0], q.a[0]) && nearV(m[1], q.a[1]) && nearV(m[2], q.a[2]); }
bool nearX(const MatTransform& t, const JV& q) { return nearV(t.translation, q["t"]) && nearM(t.rotation, q["R"]) && nearD(t.scale, qd(q["s"])); }

// max |entry - identity| of a 4x4 product, scaled
long long dev4(Matrix4 a, Matrix4 b) {
	Matrix4 p = a * b;
	double d = 0;
	for (int i = 0; i < 16; i++) d = std::max(d, std::fabs(double(p[i]) - ((i % 5 == 0) ? 1.0 : 0.0)));
	return std::isfinite(d) ? sc(d) : 2000000000LL;
}

std::string runCase(const JV& rec, bool& match) {
	const JV& c = rec["c"];
	const JV& e = rec["exp"];
	const std::string k = c["k"].s;
	JObj r;
	match = true;
	if (k == "inv") {
		MatTransform T = qxf(c["T"]);
		MatTransform inv = T.InverseTransform();
		MatTransform id = T.ComposeTransforms(inv);
		Matrix4 m = T.ToMatrix();
		Matrix4 mi = m.Inverse();
		r.raw("inv", jx(inv)).raw("id", jx(id)).add("dev4", dev4(m, mi));
		match = nearX(inv, e["inv"]) && dev4(m, mi) <= 1;
		MatTransform ident;
		match = match && nearV(id.translation, jparse("[[0,1],[0,1],[0,1]]")) && std::fabs(id.scale - 1) < 1e-4;
	}
	else if (k == "comp") {
		MatTransform A = qxf(c["A"]), B = qxf(c["B"]);
		Vector3 v = qvec(c["v"]);
		MatTransform comp = A.ComposeTransforms(B);
		Vector3 av = comp.ApplyTransform(v), av2 = A.ApplyTransform(B.ApplyTransform(v));
		Matrix4 m = comp.ToMatrix();
		Vector3 av4 = m * v;
		r.raw("comp", jx(comp)).raw("av", jv(av)).raw("av2", jv(av2)).raw("av4", jv(av4));
		match = nearX(comp, e["comp"]) && nearV(av, e["av"]) && nearV(av2, e["av"]) && nearV(av4, e["av"]);
	}
	else if (k == "mat") {
		Matrix3 M = qmat(c["M"]), inv;
		bool ok = M.Invert(&inv);
		r.add("ok", ok).raw("inv", jm(inv)).add("det", sc(M.Determinant()));
		match = ok && nearM(inv, e["inv"]) && nearD(M.Determinant(), qd(e["det"]));
	}
	else if (k == "rot") {
		Matrix3 R = qmat(c["R"]);
		Vector3 v = RotMatToVec(R);
		Matrix3 M2 = RotVecToMat(v);
		std::vector<Matrix3> rs = {R, R, R};
		Matrix3 avg = CalcAverageRotation(rs), med = CalcMedianRotation(rs);
		MatTransform T;
		T.rotation = R;
		T.translation = Vector3(1, -2, 0);
		T.scale = 2;
		std::vector<MatTransform> ts = {T, T, T, T};
		MatTransform at = CalcAverageMatTransform(ts), mt = CalcMedianMatTransform(ts);
		r.raw("vec", jv(v)).raw("M2", jm(M2)).raw("avg", jm(avg)).raw("med", jm(med)).raw("at", jx(at)).raw("mt", jx(mt));
		match = nearM(M2, c["R"]) && nearM(avg, c["R"]) && nearM(med, c["R"]) && nearM(at.rotation, c["R"]) && nearM(mt.rotation, c["R"]);
	}
	else if (k == "sphere") {
		std::vector<Vector3> pts;
		for (auto& p : c["P"].a) pts.emplace_back(float(p.a[0].n), float(p.a[1].n), float(p.a[2].n));
		BoundingSphere bs(pts);
		r.raw("center", jv(bs.center)).add("radius", sc(bs.radius));
		match = false; // always judged by the trace spec (no exact expectation is exported)
	}
	return r.done();
}

int cmdReplay(int argc, char** argv) {
	if (argc < 4) return 2;
	auto lines = readLines(argv[1]);
	std::string outPath = argv[2];
	size_t sampleEvery = strtoul(argv[3], nullptr, 10);
	{ Out trunc(outPath); }
	size_t chunk = 5000, nchunks = (lines.size() + chunk - 1) / chunk;
	size_t crashes = runForkedCases(
		nchunks, outPath, 600,
		[&](size_t ci, std::string& out) {
			size_t runs = 0, mism = 0;
			for (size_t i = ci * chunk; i < std::min(lines.size(), (ci + 1) * chunk); i++) {
				JV rec = jparse(lines[i]);
				bool match = false;
				std::string r = runCase(rec, match);
				runs++;
				if (!match) mism++;
				if (!match || (sampleEvery && i % sampleEvery == 0)) {
					out += "{\"e\":\"case\",\"i\":" + std::to_string(i) + ",\"match\":" + (match ? "true" : "false") + ",\"c\":";
					// re-serialise the case compactly
					size_t a = lines[i].find("\"c\":"), b = lines[i].rfind(",\"exp\":");
					out += lines[i].substr(a + 4, b - a - 4) + ",\"r\":" + r + "}\n";
				}
			}
			out += "{\"e\":\"stat\",\"runs\":" + std::to_string(runs) + ",\"mismatch\":" + std::to_string(mism) + "}\n";
		},
		[&](size_t ci, const std::string& why, FILE* out) { fprintf(out, "{\"e\":\"crash\",\"chunk\":%zu,\"why\":%s}\n", ci, J::str(why).s.c_str()); });
	size_t runs = 0, mism = 0;
	for (auto& l : readLines(outPath)) {
		if (l.compare(0, 11, "{\"e\":\"stat\"") != 0) continue;
		JV r = jparse(l);
		runs += r["runs"].n;
		mism += r["mismatch"].n;
	}
	printf("{\"cases\":%zu,\"runs\":%zu,\"mismatch\":%zu,\"crashes\":%zu}\n", lines.size(), runs, mism, crashes);
	return 0;
}

int cmdRandom(int argc, char** argv) {
	if (argc < 3) return 2;
	std::string outPath = argv[1];
	size_t count = strtoul(argv[2], nullptr, 10);
	std::mt19937_64 rng(seedFromEnv() * 15485863 + 20);
	std::uniform_real_distribution<double> U(-1, 1);
	Out out(outPath);
	const double PI_D = 3.14159265358979323846;
	for (size_t k = 0; k < count; k++) {
		// rotation vector below a half turn: direction random, angle spread over [0, pi) with emphasis on both ends
		Vector3 ax(float(U(rng)), float(U(rng)), float(U(rng)));
		if (ax.length() < 1e-3f) ax = Vector3(0, 0, 1);
		ax.Normalize();
		double angle;
		switch (k % 4) {
			case 0: angle = (U(rng) + 1) * 0.5 * PI_D * 0.999; break;
			case 1: angle = PI_D * (1 - 0.006 * (U(rng) + 1) * 0.5) - 1e-3; break; // 178.9 .. 179.94 degrees
			case 2: angle = 1e-3 + 0.02 * (U(rng) + 1); break;
			default: angle = PI_D / 3 + U(rng) * 0.01; break; // around cos = 0.5 (branch switch)
		}
		Vector3 v = ax * float(angle);
		Matrix3 M = RotVecToMat(v);
		Vector3 v2 = RotMatToVec(M);
		std::vector<Matrix3> rs = {M, M, M};
		Matrix3 avg = CalcAverageRotation(rs);
		JObj e;
		e.add("e", "rotvec").raw("v", jv(v)).raw("v2", jv(v2)).raw("M", jm(M)).raw("avg", jm(avg)).add("angle", sc(angle));
		out.line(e.done());
	}
	// rotation vectors of any length (up to four turns): the matrix is orthonormal, and whole turns do not matter - it is the
	// matrix of the vector brought into (-pi, pi] about the same axis
	for (size_t k = 0; k < count; k++) {
		Vector3 ax(float(U(rng)), float(U(rng)), float(U(rng)));
		if (ax.length() < 1e-3f) ax = Vector3(1, 0, 0);
		ax.Normalize();
		double angle;
		switch (k % 4) {
			case 0: angle = PI_D + (U(rng) + 1) * 0.5 * PI_D; break;			// (half turn, full turn)
			case 1: angle = 2 * PI_D + 0.002 + (U(rng) + 1) * 0.05; break;		// just beyond a full turn
			case 2: angle = 2 * PI_D * (1 + (U(rng) + 1) * 1.5); break;			// one to four turns
			default: angle = 2 * PI_D * double(1 + k % 3) - 0.002 - (U(rng) + 1) * 0.05; break; // just below a whole number of turns
		}
		double wrapped = std::remainder(angle, 2 * PI_D);
		Matrix3 M = RotVecToMat(ax * float(angle));
		Matrix3 Mr = RotVecToMat(ax * float(wrapped));
		JObj e;
		e.add("e", "rotany").raw("M", jm(M)).raw("Mr", jm(Mr)).add("angle", sc(angle)).add("wrapped", sc(wrapped));
		out.line(e.done());
	}
	// point sets: duplicates, collinear, single, clustered far from the origin
	for (size_t k = 0; k < count; k++) {
		size_t n = 1 + rng() % 12;
		std::vector<Vector3> pts;
		int mode = int(k % 4);
		Vector3 base(float(int(rng() % 41) - 20), float(int(rng() % 41) - 20), float(int(rng() % 41) - 20));
		for (size_t i = 0; i < n; i++) {
			Vector3 p(float(int(rng() % 21) - 10), float(int(rng() % 21) - 10), float(int(rng() % 21) - 10));
			if (mode == 1) p = Vector3(p.x, p.x * 2, -p.x); // collinear
			if (mode == 2 && i > 0) p = pts[0];			   // duplicates
			if (mode == 3) p = base + p * 0.1f;			   // small cluster off-origin (integers / 10)
			pts.push_back(p);
		}
		BoundingSphere bs(pts);
		JArr jp;
		for (auto& p : pts) jp.raw(jv(p));
		JObj e;
		e.add("e", "sphere").raw("P", jp.done()).raw("center", jv(bs.center)).add("radius", sc(bs.radius));
		out.line(e.done());
	}
	// small clouds far from the origin (cell / world coordinates): logged relative to the offset, with the slack the float
	// resolution at that distance needs
	{
		const double offs[][3] = {{350, -120, 64}, {4096, 8192, 512}, {61440, 36864, 2900}, {-147456, 110592, -4200}};
		for (size_t k = 0; k < count / 2 + 8; k++) {
			const double* O = offs[k % 4];
			size_t n = 3 + rng() % 10;
			std::vector<Vector3> pts;
			for (size_t i = 0; i < n; i++)
				pts.emplace_back(float(O[0] + double(int(rng() % 13) - 6)), float(O[1] + double(int(rng() % 13) - 6)), float(O[2] + double(int(rng() % 7) - 3)));
			BoundingSphere bs(pts);
			auto rel = [&](const Vector3& p) {
				JArr a;
				a.add((long long) llround((double(p.x) - O[0]) * 1000.0)).add((long long) llround((double(p.y) - O[1]) * 1000.0)).add((long long) llround((double(p.z) - O[2]) * 1000.0));
				return a.done();
			};
			JArr jp;
			for (auto& p : pts) jp.raw(rel(p));
			double far = std::max(std::fabs(O[0]), std::max(std::fabs(O[1]), std::fabs(O[2])));
			long long slack = 3 + (long long) std::ceil(far * 1.2e-7 * 100.0 * 6.0);
			JObj e;
			e.add("e", "sphere").add("far", true).add("slack", slack).raw("P", jp.done()).raw("center", rel(bs.center)).add("radius", sc(bs.radius));
			out.line(e.done());
		}
	}
	// shape bounds along an edit history: create, UpdateBounds, move the vertices (same count), UpdateBounds again
	const char* vers[] = {"OB", "FO3", "SK", "SSE", "FO4", "FO76"};
	for (size_t k = 0; k < count / 4 + 6; k++) {
		const char* ver = vers[k % 6];
		NifFile nif;
		nif.Create(versionByName(ver));
		size_t n = 3 + rng() % 6;
		std::vector<Vector3> v1, v2;
		for (size_t i = 0; i < n; i++) {
			v1.emplace_back(float(int(rng() % 21) - 10), float(int(rng() % 21) - 10), float(int(rng() % 21) - 10));
			v2.emplace_back(float(int(rng() % 21) + 30), float(int(rng() % 21) - 10), float(int(rng() % 21) - 60));
		}
		std::vector<Triangle> t = {Triangle(0, 1, 2)};
		std::vector<Vector2> uv(n);
		NiShape* s = nif.CreateShapeFromData("S", &v1, &t, &uv);
		if (!s) continue;
		auto logb = [&](const char* step, const std::vector<Vector3>& pts) {
			BoundingSphere b = s->GetBounds();
			JArr jp;
			for (auto& p : pts) jp.raw(jv(p));
			JObj e;
			e.add("e", "bounds").add("ver", ver).add("step", step).raw("P", jp.done()).raw("center", jv(b.center)).add("radius", sc(b.radius));
			out.line(e.done());
		};
		s->UpdateBounds();
		logb("create+update", v1);
		if (k % 2) nif.GetVertsForShape(s); // fills caches some shape kinds keep
		nif.SetVertsForShape(s, v2);
		s->UpdateBounds();
		logb("setverts+update", v2);
		nif.SetVertsForShape(s, v1);
		nif.Optimize();
		logb("setverts+optimize", v1);
	}
	return 0;
}
Reg r1("c20-replay", cmdReplay);
Reg r2("c20-random", cmdRandom);
} // namespace
