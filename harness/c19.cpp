// C19: texture path clean-up is canonical and idempotent.
//   c19-replay <cases.ndjson> <out.ndjson> <sampleEvery>   TLC-enumerated token strings through every slot kind
//   c19-random <out.ndjson> <count>                         random byte strings (incl. non-UTF-8, drive/UNC prefixes)
#include "graph.hpp"
#include "Shaders.hpp"

using namespace nifly;
using namespace vh;

namespace {
const std::map<std::string, std::string> kTok = {{"BS", "\\"}, {"FS", "/"}, {"SP", " "}, {"NL", "\n"}, {"DOT", "."}, {"COL", ":"},
												 {"a", "a"},   {"b", "b"},  {"T", "textures"}, {"TU", "TEXTURES"}, {"D", "data"}, {"DD", "Data"}};

std::string detok(const JV& p) {
	std::string s;
	for (auto& t : p.a) s += kTok.at(t.s);
	return s;
}

bool ieq(const std::string& s, size_t i, const char* w) {
	size_t n = strlen(w);
	if (i + n > s.size()) return false;
	for (size_t k = 0; k < n; k++)
		if (tolower((unsigned char) s[i + k]) != w[k]) return false;
	return true;
}

// bytes -> tokens. exact=true: only the alphabet of TexPathMC (anything else becomes "?"); exact=false: a structure-preserving
// abstraction of arbitrary bytes (whitespace classes, separators, the words, everything else a letter)
std::string tokenise(const std::string& s, bool exact) {
	JArr a;
	size_t i = 0;
	while (i < s.size()) {
		unsigned char c = (unsigned char) s[i];
		if (ieq(s, i, "textures")) {
			bool upper = s.compare(i, 8, "TEXTURES") == 0, lower = s.compare(i, 8, "textures") == 0;
			a.add(std::string(upper ? "TU" : (lower || !exact ? "T" : "?")));
			i += 8;
			continue;
		}
		if (ieq(s, i, "data")) {
			bool cap = s.compare(i, 4, "Data") == 0, lower = s.compare(i, 4, "data") == 0;
			a.add(std::string(cap ? "DD" : (lower || !exact ? "D" : "?")));
			i += 4;
			continue;
		}
		std::string t;
		if (c == '\\') t = "BS";
		else if (c == '/') t = "FS";
		else if (c == ' ') t = "SP";
		else if (c == '\n') t = "NL";
		else if (c == '.') t = "DOT";
		else if (c == ':') t = "COL";
		else if (c == 'a') t = "a";
		else if (c == 'b') t = "b";
		else if (!exact && (c == '\r')) t = "NL";
		else if (!exact && isspace(c)) t = "SP";
		else t = exact ? "?" : "a";
		a.add(t);
		i++;
	}
	return a.done();
}

enum Kind { TEXSET, EFFECT, SOURCE };
const char* kindName(Kind k) { return k == TEXSET ? "texset" : (k == EFFECT ? "effect" : "source"); }

// a model with one shape whose texture slot of the given kind holds `path`
struct Rig {
	NifFile nif;
	NiShape* shape = nullptr;
	Kind kind;
	Rig(bool needsPrefix, Kind k) : kind(k) {
		// the texturing-property slot kind exists in the Oblivion and Fallout 3 families; with the prefix rule it is Fallout 3's
		nif.Create(needsPrefix ? (k == SOURCE ? NiVersion::getFO3() : NiVersion::getSSE()) : NiVersion::getOB());
		std::vector<Vector3> v = {{0, 0, 0}, {1, 0, 0}, {0, 1, 0}};
		std::vector<Triangle> t = {Triangle(0, 1, 2)};
		std::vector<Vector2> uv = {{0, 0}, {1, 0}, {0, 1}};
		shape = nif.CreateShapeFromData("S", &v, &t, &uv);
		auto& hdr = nif.GetHeader();
		if (k == EFFECT) {
			auto es = std::make_unique<BSEffectShaderProperty>();
			uint32_t id = hdr.AddBlock(std::move(es));
			shape->ShaderPropertyRef()->index = id;
		}
		else if (k == SOURCE) {
			auto src = std::make_unique<NiSourceTexture>();
			uint32_t sid = hdr.AddBlock(std::move(src));
			auto tp = std::make_unique<NiTexturingProperty>();
			tp->hasBaseTex = true;
			tp->baseTex.sourceRef.index = sid;
			uint32_t tid = hdr.AddBlock(std::move(tp));
			shape->propertyRefs.AddBlockRef(tid);
		}
	}
	static NiShape* firstShape(NifFile& n) {
		auto s = n.GetShapes();
		return s.empty() ? nullptr : s[0];
	}
	static void set(NifFile& n, Kind k, const std::string& path) {
		auto sh = firstShape(n);
		if (!sh) return;
		if (k == TEXSET) {
			std::string p = path;
			n.SetTextureSlot(sh, p, 0);
		}
		else if (k == EFFECT) {
			auto es = dynamic_cast<BSEffectShaderProperty*>(n.GetShader(sh));
			if (es) {
				es->sourceTexture.get() = path;
				es->normalTexture.get() = path;
				es->greyscaleTexture.get() = path;
				es->envMapTexture.get() = path;
				es->envMaskTexture.get() = path;
			}
		}
		else {
			auto tp = n.GetTexturingProperty(sh);
			if (tp) {
				auto st = n.GetHeader().GetBlock(tp->baseTex.sourceRef);
				if (st) st->fileName.get() = path;
			}
		}
	}
	// all texture strings of the slot kind as the public accessors return them
	static std::vector<std::string> get(NifFile& n, Kind k) {
		std::vector<std::string> r;
		auto sh = firstShape(n);
		if (!sh) return r;
		if (k == TEXSET) {
			std::string t;
			n.GetTextureSlot(sh, t, 0);
			r.push_back(t);
		}
		else if (k == EFFECT) {
			for (uint32_t i : {0u, 1u, 3u, 4u, 5u}) {
				std::string t;
				n.GetTextureSlot(sh, t, i);
				r.push_back(t);
			}
		}
		else {
			auto tp = n.GetTexturingProperty(sh);
			if (tp) {
				auto st = n.GetHeader().GetBlock(tp->baseTex.sourceRef);
				if (st) r.push_back(st->fileName.get());
			}
		}
		return r;
	}
};

struct Outcome {
	std::vector<std::string> q, q2;
	// load leg: an explicit clean-up on a copy of the loaded model and on the loaded model after it was moved
	std::vector<std::string> qCopy, qMoved;
};

// via explicit TrimTexturePaths (terrain flag cannot be set that way) or via Save + Load(options)
Outcome clean(Rig& rig, const std::string& path, bool viaLoad, bool terrain, bool relocate = true) {
	Outcome o;
	Rig::set(rig.nif, rig.kind, path);
	if (!viaLoad) {
		rig.nif.TrimTexturePaths();
		o.q = Rig::get(rig.nif, rig.kind);
		rig.nif.TrimTexturePaths();
		o.q2 = Rig::get(rig.nif, rig.kind);
	}
	else {
		std::string bytes = saveToString(rig.nif, false, false);
		NifFile a;
		if (loadFromString(a, bytes, terrain) != 0) return o;
		o.q = Rig::get(a, rig.kind);
		if (relocate) {
			// cleaning a clean path changes nothing - also on a copy of the loaded model and after the model has been moved
			NifFile c(a);
			c.TrimTexturePaths();
			o.qCopy = Rig::get(c, rig.kind);
			NifFile keep(a);
			NifFile m(std::move(keep));
			m.TrimTexturePaths();
			o.qMoved = Rig::get(m, rig.kind);
		}
		std::string bytes2 = saveToString(a, false, false);
		NifFile b;
		if (loadFromString(b, bytes2, terrain) != 0) return o;
		o.q2 = Rig::get(b, rig.kind);
		if (rig.kind == EFFECT && o.q.size() == 5 && o.q2.size() == 5) {
			// Skyrim SE files only store the source and greyscale textures of an effect shader
			o.q = {o.q[0], o.q[2]};
			o.q2 = {o.q2[0], o.q2[2]};
			if (o.qCopy.size() == 5) o.qCopy = {o.qCopy[0], o.qCopy[2]};
			if (o.qMoved.size() == 5) o.qMoved = {o.qMoved[0], o.qMoved[2]};
		}
	}
	return o;
}

void emit(std::string& out, const char* kind, const char* via, const std::string& pTok, bool np, bool ter, const Outcome& o, bool exact, bool match,
		  size_t caseNo) {
	for (size_t i = 0; i < o.q.size(); i++) {
		JObj e;
		e.add("e", "clean").add("case", (long long) caseNo).add("kind", kind).add("via", via).add("slot", (long long) i).raw("p", pTok);
		e.add("np", np).add("ter", ter).raw("q", tokenise(o.q[i], exact)).raw("q2", tokenise(i < o.q2.size() ? o.q2[i] : std::string("?"), exact));
		e.add("match", match);
		// (the model-level result is one flag: every relocated model gave the very same paths)
		e.add("relocatedSame", (o.qCopy.empty() || o.qCopy == o.q) && (o.qMoved.empty() || o.qMoved == o.q));
		out += e.done() + "\n";
	}
}

int cmdReplay(int argc, char** argv) {
	if (argc < 4) return 2;
	auto lines = readLines(argv[1]);
	std::string outPath = argv[2];
	size_t sampleEvery = strtoul(argv[3], nullptr, 10);
	{ Out trunc(outPath); }
	size_t chunk = 2000;
	size_t nchunks = (lines.size() + chunk - 1) / chunk;
	size_t crashes = runForkedCases(
		nchunks, outPath, 600,
		[&](size_t ci, std::string& out) {
			Rig* rigs[2][3] = {{nullptr, nullptr, nullptr}, {nullptr, nullptr, nullptr}};
			size_t runs = 0, mism = 0;
			for (size_t k = ci * chunk; k < std::min(lines.size(), (ci + 1) * chunk); k++) {
				JV c = jparse(lines[k]);
				bool np = c["np"].b, ter = c["ter"].b;
				std::string path = detok(c["p"]);
				std::string expect = detok(c["q"]);
				bool modelViol = c["viol"].size() > 0;
				JArr pt;
				for (auto& t : c["p"].a) pt.add(t.s);
				std::string pTok = pt.done();
				for (Kind kind : {TEXSET, EFFECT, SOURCE}) {
					if (kind == EFFECT && !np) continue; // effect shaders do not exist for OB
					Rig*& rig = rigs[np][kind];
					if (!rig) rig = new Rig(np, kind);
					for (bool viaLoad : {false, true}) {
						if (ter && !viaLoad) continue; // the terrain flag only exists as a load option
						// Load keeps strings up to the first NUL only for some kinds and very long runs are slow: sample the load leg
						if (viaLoad && !ter && (k % 7) != 0) continue;
						Outcome o = clean(*rig, path, viaLoad, ter, ter || (k % 21) == 0);
						runs++;
						bool match = !o.q.empty();
						for (auto& q : o.q)
							if (q != expect) match = false;
						if (!match) mism++;
						if (!match || modelViol || (sampleEvery && k % sampleEvery == 0))
							emit(out, kindName(kind), viaLoad ? "load" : "trim", pTok, np, ter, o, true, match, k);
					}
				}
			}
			out += "{\"e\":\"stat\",\"runs\":" + std::to_string(runs) + ",\"mismatch\":" + std::to_string(mism) + "}\n";
		},
		[&](size_t ci, const std::string& why, FILE* out) {
			fprintf(out, "{\"e\":\"crash\",\"chunk\":%zu,\"why\":%s}\n", ci, J::str(why).s.c_str());
		});
	size_t runs = 0, mism = 0;
	for (auto& l : readLines(outPath)) {
		if (l.compare(0, 11, "{\"e\":\"stat\"") != 0) continue;
		JV r = jparse(l);
		runs += r["runs"].n;
		mism += r["mismatch"].n;
	}
	printf("{\"cases\":%zu,\"runs\":%zu,\"mismatch\":%zu,\"crashes\":%zu}\n", lines.size(), runs, mism, crashes);
	return 0;
}

int cmdRandom(int argc, char** argv) {
	if (argc < 3) return 2;
	std::string outPath = argv[1];
	size_t count = strtoul(argv[2], nullptr, 10);
	std::mt19937_64 rng(seedFromEnv() * 104729 + 19);
	{ Out trunc(outPath); }
	std::vector<std::string> paths;
	const char* frag[] = {"textures", "Textures", "TEXTURES", "data", "Data", "\\", "\\\\", "/", "//", " ", "\t", "\r\n", "\n", ".", "..", ":",
						  "C:", "\\\\server\\share", "armor", "a", "b", ".dds", "\xff", "\xc3\xa9", "\x80", "\xe2\x82", "landscape", "_n", "é"};
	for (size_t k = 0; k < count; k++) {
		std::string s;
		size_t target = (k % 10 == 0) ? 1 + rng() % 4096 : 1 + rng() % 48;
		while (s.size() < target) {
			if (rng() % 6 == 0) s += char(rng() % 255 + 1); // any non-NUL byte
			else s += frag[rng() % (sizeof frag / sizeof *frag)];
		}
		paths.push_back(s);
	}
	size_t chunk = 200, nchunks = (paths.size() + chunk - 1) / chunk;
	size_t crashes = runForkedCases(
		nchunks, outPath, 300,
		[&](size_t ci, std::string& out) {
			for (size_t k = ci * chunk; k < std::min(paths.size(), (ci + 1) * chunk); k++) {
				bool np = (k % 2) == 0;
				Kind kind = np ? ((k / 2) % 2 ? EFFECT : TEXSET) : ((k / 2) % 2 ? SOURCE : TEXSET);
				bool viaLoad = (k % 5) == 0, ter = viaLoad && (k % 10) == 0;
				Rig rig(np, kind);
				Outcome o = clean(rig, paths[k], viaLoad, ter);
				// a NUL-free path survives a save/load round trip as it is, so the tokenised input is the same for both legs
				emit(out, kindName(kind), viaLoad ? "load" : "trim", tokenise(paths[k], false), np, ter, o, false, false, k);
			}
		},
		[&](size_t ci, const std::string& why, FILE* out) {
			fprintf(out, "{\"e\":\"crash\",\"chunk\":%zu,\"why\":%s}\n", ci, J::str(why).s.c_str());
		});
	printf("{\"cases\":%zu,\"crashes\":%zu}\n", paths.size(), crashes);
	return 0;
}
Reg r1("c19-replay", cmdReplay);
Reg r2("c19-random", cmdRandom);
} // namespace
