// C15: corrupted block references never crash loading, querying, copying or saving.
//   c15-reftable <sample.nif> <out.ndjson>       every serialised reference of a loadable file with its byte offset
//   c15-inject <sample.nif> <faults.ndjson> <out.ndjson>   byte-level injection of fault sets, full pipeline per case
//   c15-graphs <states.ndjson> <out.ndjson> <versionsCsv> <every> <offset>   enumerated (corrupt) graphs
#include "battery.hpp"
#include "hooks.hpp"

using namespace nifly;
using namespace vh;

namespace {
// load -> query battery -> copy (+battery) -> sort -> default save -> reload (+battery)
std::string pipeline(const std::string& bytes, const std::string& caseJson) {
	JObj ev;
	ev.add("e", "fault").raw("case", caseJson);
	NifFile nif;
	int rc = loadFromString(nif, bytes);
	ev.add("load", rc);
	if (rc == 0) {
		ContentIds ids;
		battery(nif, ids, false);
		{
			NifFile copy(nif);
			battery(copy, ids, false);
			NifFile assigned;
			assigned = copy;
			battery(assigned, ids, false);
		}
		nif.PrettySortBlocks();
		std::ostringstream os(std::ios::binary);
		int src = nif.Save(os);
		ev.add("save", src);
		NifFile re;
		int rrc = loadFromString(re, os.str());
		ev.add("reload", rrc);
		if (rrc == 0) battery(re, ids, false);
		ev.add("blocks", (long long) nif.GetHeader().GetNumBlocks());
	}
	return ev.done() + "\n";
}

int cmdRefTable(int argc, char** argv) {
	if (argc < 3) return 2;
	std::string bytes = readFile(argv[1]);
	NifFile nif;
	if (loadFromString(nif, bytes) != 0) return 3;
	HeaderInfo h = parseHeader(bytes);
	if (!h.ok || !h.hasSizes) { // offsets need the size table (or exact Put sizes); OB files: use Put sizes
	}
	Out out(argv[2]);
	auto& hdr = nif.GetHeader();
	// parents through owning refs (for the "ancestor" corruption kind)
	uint32_t n = hdr.GetNumBlocks();
	std::vector<int> parent(n, -1);
	for (uint32_t i = 0; i < n; i++) {
		std::vector<uint32_t> idx;
		if (auto b = hdr.GetBlock<NiObject>(i)) b->GetChildIndices(idx);
		for (auto c : idx)
			if (c < n && parent[c] < 0 && c != i) parent[c] = (int) i;
	}
	size_t pos = h.hdrLen;
	for (uint32_t i = 0; i < n; i++) {
		NiObject* b = hdr.GetBlock<NiObject>(i);
		PutInfo pi = putBlock(b, hdr);
		size_t sz = h.hasSizes ? h.sizes[i] : pi.bytes.size();
		if (pi.bytes.size() == sz) {
			int ord = 0;
			for (auto& w : pi.wrefs) {
				uint32_t inFile = 0;
				memcpy(&inFile, &bytes[pos + w.first], 4);
				JArr anc;
				int a = parent[i], guard = 0;
				while (a >= 0 && guard++ < 64) {
					anc.add(a);
					a = parent[a];
				}
				JObj r;
				r.add("block", (long long) i).add("type", b->GetBlockName()).add("ord", ord++).add("off", (long long) (pos + w.first));
				r.add("val", refVal(inFile)).add("n", (long long) n).add("anc", anc);
				out.line(r.done());
			}
		}
		pos += sz;
	}
	return 0;
}

int cmdInject(int argc, char** argv) {
	if (argc < 4) return 2;
	std::string bytes = readFile(argv[1]);
	auto faults = readLines(argv[2]);
	std::string outPath = argv[3];
	std::string fname = argv[1];
	fname = fname.substr(fname.rfind('/') + 1);
	{ Out trunc(outPath); }
	auto caseOf = [&](size_t k) {
		JObj c;
		c.add("file", fname).raw("fault", faults[k]);
		return c.done();
	};
	size_t crashes = runForkedCases(
		faults.size(), outPath, 25,
		[&](size_t k, std::string& out) {
			std::string b = bytes;
			JV f = jparse(faults[k]);
			for (auto& p : f["patch"].a) {
				size_t off = (size_t) p.a[0].n;
				// (negative values are the low 32 bits: -1 = 0xFFFFFFFF "no block", -2 = 0xFFFFFFFE far beyond the count)
				uint32_t v = (uint32_t) (long long) p.a[1].n;
				if (off + 4 <= b.size()) memcpy(&b[off], &v, 4);
			}
			out += pipeline(b, caseOf(k));
		},
		[&](size_t k, const std::string& why, FILE* out) {
			fprintf(out, "{\"e\":\"crash\",\"case\":%s,\"why\":%s}\n", caseOf(k).c_str(), J::str(why).s.c_str());
		},
		4096);
	printf("{\"cases\":%zu,\"crashes\":%zu}\n", faults.size(), crashes);
	return 0;
}

int cmdGraphs(int argc, char** argv) {
	if (argc < 6) return 2;
	auto lines = readLines(argv[1]);
	std::string outPath = argv[2];
	std::vector<std::string> versions;
	{
		std::stringstream ss(argv[3]);
		std::string v;
		while (std::getline(ss, v, ',')) versions.push_back(v);
	}
	size_t every = strtoul(argv[4], nullptr, 10), offset = strtoul(argv[5], nullptr, 10);
	std::vector<size_t> picked;
	for (size_t i = 0; i < lines.size(); i++)
		if (every <= 1 || i % every == offset % every) picked.push_back(i);
	{ Out trunc(outPath); }
	auto caseOf = [&](size_t k) {
		JObj c;
		c.add("graph", (long long) picked[k / versions.size()]).add("ver", versions[k % versions.size()]);
		return c.done();
	};
	size_t crashes = runForkedCases(
		picked.size() * versions.size(), outPath, 25,
		[&](size_t k, std::string& out) {
			JV rec = jparse(lines[picked[k / versions.size()]]);
			const JV& st = rec["g"];
			NifFile nif;
			nif.Create(versionByName(versions[k % versions.size()]));
			auto& hdr = nif.GetHeader();
			hdr.DeleteBlock(0u);
			for (auto& b : st["blocks"].a) {
				auto o = makeBlock(b, hdr.GetVersion());
				if (!o) return;
				hdr.AddBlock(std::move(o));
			}
			// in-memory operations on the constructed (possibly corrupt) graph first
			{
				NifFile c(nif);
				ContentIds ids;
				battery(c, ids, false);
				c.PrettySortBlocks();
				c.Optimize();
			}
			// what the sorter makes of the corrupt graph, for comparison with the sorter transcription (NifSort): not a
			// property clause, a difference is model drift
			{
				NifFile c(nif);
				UidMap um;
				ProjOpts po;
				po.names = true;
				std::string pre = project(c, um, po);
				c.PrettySortBlocks();
				std::string post = project(c, um, po);
				out += "{\"e\":\"sort\",\"op\":\"SortCorrupt\",\"case\":" + caseOf(k) + ",\"pre\":" + pre + ",\"post\":" + post + "}\n";
			}
			std::string bytes = saveToString(nif, false, false);
			out += pipeline(bytes, caseOf(k));
		},
		[&](size_t k, const std::string& why, FILE* out) {
			fprintf(out, "{\"e\":\"crash\",\"case\":%s,\"why\":%s,\"model\":%s}\n", caseOf(k).c_str(), J::str(why).s.c_str(),
					lines[picked[k / versions.size()]].c_str());
		},
		4096);
	printf("{\"graphs\":%zu,\"cases\":%zu,\"crashes\":%zu}\n", picked.size(), picked.size() * versions.size(), crashes);
	return 0;
}
Reg r1("c15-reftable", cmdRefTable);
Reg r2("c15-inject", cmdInject);
Reg r3("c15-graphs", cmdGraphs);
} // namespace
