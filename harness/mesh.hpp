#pragma once
#include "graph.hpp"
namespace vh {
inline std::string u16json(const std::vector<uint16_t>& v) {
	JArr a;
	for (auto x : v) a.add((long long) x);
	return a.done();
}
// abstract shape record (MeshOps.tla) of one shape, through the public accessors
std::string projectShape(nifly::NifFile& nif, nifly::NiShape* shape, ContentIds& ids);
// adds an NiTriStrips shape "Strips" (3x3 grid, stitched strips) below the root
void addStripsShape(nifly::NifFile& nif);
// a shape whose vertex i sits at (i, 0, 0) (labels), with UVs exact in half precision and optional unit normals
nifly::NiShape* buildShape(nifly::NifFile& nif, const std::string& name, size_t nv, const std::vector<nifly::Triangle>& tris, bool withNormals);
// skin the shape to `nbones` new bones; weightsOf(v) lists (bone, weight) of vertex v
bool skinShape(nifly::NifFile& nif, nifly::NiShape* shape, size_t nbones, const std::function<std::vector<std::pair<int, float>>(uint16_t)>& weightsOf);
}
