// C06: block-graph edit histories.
//   c06-walk <transitions.ndjson> <trace-out.ndjson> <sampleEvery> <version>
//     Replays the TLC-exported transition graph of NifGraphMC on live NifFile objects along the same paths
//     (every node is rebuilt through its discovery path, every edge is executed once on a copy), compares the
//     projection with the model's post state, and checks SaveRaw+Load equivalence in every node.
//     Edges whose result differs from the model (and a sample of the others) are logged for trace validation.
#include "graph.hpp"
#include <deque>
#include <unistd.h>
#include <unordered_map>

using namespace nifly;
using namespace vh;

namespace {
std::string canonJ(const JV& v) {
	switch (v.k) {
		case JV::Null: return "null";
		case JV::Bool: return v.b ? "true" : "false";
		case JV::Num: return std::to_string(v.n);
		case JV::Str: return J::str(v.s).s;
		case JV::Arr: {
			JArr a;
			for (auto& x : v.a) a.raw(canonJ(x));
			return a.done();
		}
		case JV::Obj: {
			std::vector<std::pair<std::string, std::string>> kv;
			for (auto& p : v.o) kv.emplace_back(p.first, canonJ(p.second));
			std::sort(kv.begin(), kv.end());
			JObj o;
			for (auto& p : kv) o.raw(p.first.c_str(), p.second);
			return o.done();
		}
	}
	return "null";
}

struct Edge {
	int to;
	std::string act; // JSON text
};
struct Node {
	std::string key; // canonical model state
	int parent = -1;
	int parentEdge = -1;
	std::vector<Edge> out;
};

struct Walker {
	std::vector<Node> nodes;
	std::unordered_map<std::string, int> index;
	std::string version;
	int nodeOf(const std::string& key) {
		auto it = index.find(key);
		if (it != index.end()) return it->second;
		int id = (int) nodes.size();
		nodes.emplace_back();
		nodes.back().key = key;
		index[key] = id;
		return id;
	}
};

// strip empty entries: write-mode Sync drops them from reference arrays by design
std::string reloadComparable(NifFile& nif) {
	auto& hdr = nif.GetHeader();
	JArr blocks;
	for (uint32_t i = 0; i < hdr.GetNumBlocks(); i++) {
		NiObject* b = hdr.GetBlock<NiObject>(i);
		std::vector<uint32_t> idx;
		std::vector<long long> refs, ptrs;
		if (b) {
			b->GetChildIndices(idx);
			for (auto v : idx)
				if (v != NIF_NPOS) refs.push_back(refVal(v));
			std::set<NiPtr*> ps;
			b->GetPtrs(ps);
			for (auto p : ps)
				if (p->index != NIF_NPOS) ptrs.push_back(refVal(p->index));
			std::sort(refs.begin(), refs.end());
			std::sort(ptrs.begin(), ptrs.end());
		}
		JObj jb;
		jb.add("t", b ? b->GetBlockName() : "NULL").add("r", jints(refs)).add("p", jints(ptrs));
		blocks.add(jb);
	}
	return blocks.done();
}

int cmdWalk(int argc, char** argv) {
	if (argc < 5) return 2;
	std::string inPath = argv[1], outPath = argv[2];
	size_t sampleEvery = strtoul(argv[3], nullptr, 10);
	Walker w;
	w.version = argv[4];
	// ---- pass 1: read the transition graph
	size_t modelNotOk = 0, nedges = 0;
	{
		std::ifstream in(inPath);
		std::string line;
		while (std::getline(in, line)) {
			if (line.empty()) continue;
			JV t = jparse(line);
			int a = w.nodeOf(canonJ(t["pre"]));
			int b = w.nodeOf(canonJ(t["post"]));
			w.nodes[a].out.push_back({b, canonJ(t["a"])});
			nedges++;
			if (!t["ok"].b) modelNotOk++;
		}
	}
	// ---- init = Create(version)
	NifFile init;
	init.Create(versionByName(w.version));
	std::string initKey = projectModel(init);
	auto it = w.index.find(initKey);
	if (it == w.index.end()) {
		fprintf(stderr, "initial state of the implementation is not a node of the exported graph: %s\n", initKey.c_str());
		return 3;
	}
	int root = it->second;
	// BFS parents
	std::deque<int> q;
	std::vector<char> seen(w.nodes.size(), 0);
	seen[root] = 1;
	q.push_back(root);
	std::vector<int> order;
	while (!q.empty()) {
		int n = q.front();
		q.pop_front();
		order.push_back(n);
		for (size_t e = 0; e < w.nodes[n].out.size(); e++) {
			int m = w.nodes[n].out[e].to;
			if (!seen[m]) {
				seen[m] = 1;
				w.nodes[m].parent = n;
				w.nodes[m].parentEdge = (int) e;
				q.push_back(m);
			}
		}
	}
	{ Out trunc(outPath); }
	// progress marker so that a crash can be attributed to an edge
	std::string markPath = outPath + ".mark";
	std::set<std::pair<int, int>> skip; // (node position in order, edge) that crashed
	size_t startPos = 0;
	size_t matched = 0, mismatched = 0, reloads = 0, reloadDiffs = 0, crashes = 0, executed = 0;
	while (startPos < order.size()) {
		std::string why;
		int rc = forkRun(
			[&]() -> int {
				FILE* out = fopen(outPath.c_str(), "a");
				FILE* mark = fopen(markPath.c_str(), "w");
				size_t lm = 0, lmm = 0, lr = 0, lrd = 0, lex = 0;
				for (size_t pos = startPos; pos < order.size(); pos++) {
					int n = order[pos];
					// rebuild the node through its discovery path
					std::vector<const std::string*> path;
					for (int x = n; w.nodes[x].parent >= 0; x = w.nodes[x].parent)
						path.push_back(&w.nodes[w.nodes[x].parent].out[w.nodes[x].parentEdge].act);
					NifFile nif;
					nif.Create(versionByName(w.version));
					for (auto pit = path.rbegin(); pit != path.rend(); ++pit) applyGraphOp(nif, jparse(**pit));
					// reload equivalence in this node
					{
						fseek(mark, 0, SEEK_SET);
						fprintf(mark, "%zu -1\n", pos);
						fflush(mark);
						NifFile c(nif);
						UidMap um;
						ProjOpts po;
						std::string pre = project(c, um, po);
						std::string cmpPre = reloadComparable(c);
						std::string bytes = saveToString(c, false, false);
						NifFile r;
						int lrc = loadFromString(r, bytes);
						std::string cmpPost = lrc == 0 ? reloadComparable(r) : "loadfail";
						lr++;
						bool diff = cmpPre != cmpPost;
						if (diff) lrd++;
						if (diff || (sampleEvery && pos % sampleEvery == 0)) {
							UidMap um2;
							fprintf(out, "{\"e\":\"reload\",\"node\":%zu,\"rc\":%d,\"pre\":%s,\"post\":%s}\n", pos, lrc, pre.c_str(),
									lrc == 0 ? project(r, um2, po).c_str() : "{\"blocks\":[]}");
						}
					}
					// the sorting and pruning save of this node's model loads again (every few nodes: it is the slower save)
					if (pos % 4 == 0) {
						fseek(mark, 0, SEEK_SET);
						fprintf(mark, "%zu -1\n", pos);
						fflush(mark);
						NifFile c(nif);
						uint32_t before = c.GetHeader().GetNumBlocks();
						std::string bytes = saveToString(c, true, true);
						NifFile r;
						int lrc = loadFromString(r, bytes);
						if (lrc != 0 || r.GetHeader().GetNumBlocks() > before || (sampleEvery && pos % (4 * sampleEvery) == 0)) {
							UidMap um2;
							ProjOpts po;
							fprintf(out, "{\"e\":\"reloaddef\",\"node\":%zu,\"rc\":%d,\"before\":%u,\"post\":%s}\n", pos, lrc, before,
									lrc == 0 ? project(r, um2, po).c_str() : "{\"blocks\":[],\"types\":[],\"tidx\":[],\"sz\":[],\"hs\":false,\"hdrBlocks\":0}");
						}
					}
					for (size_t e = 0; e < w.nodes[n].out.size(); e++) {
						if (skip.count({(int) pos, (int) e})) continue;
						fseek(mark, 0, SEEK_SET);
						fprintf(mark, "%zu %zu\n", pos, e);
						fflush(mark);
						NifFile c(nif);
						UidMap um;
						ProjOpts po;
						const Edge& ed = w.nodes[n].out[e];
						bool sampled = sampleEvery && ((pos * 131 + e) % sampleEvery == 0);
						std::string pre = project(c, um, po);
						JV act = jparse(ed.act);
						applyGraphOp(c, act);
						lex++;
						std::string got = projectModel(c);
						bool same = got == w.nodes[ed.to].key;
						if (same) lm++;
						else lmm++;
						if (!same || sampled)
							fprintf(out, "{\"e\":\"step\",\"node\":%zu,\"edge\":%zu,\"match\":%s,\"a\":%s,\"pre\":%s,\"post\":%s}\n", pos, e,
									same ? "true" : "false", ed.act.c_str(), pre.c_str(), project(c, um, po).c_str());
					}
				}
				fprintf(out, "{\"e\":\"stat\",\"matched\":%zu,\"mismatched\":%zu,\"reloads\":%zu,\"reloadDiffs\":%zu,\"executed\":%zu}\n", lm, lmm, lr,
						lrd, lex);
				fclose(out);
				fclose(mark);
				return 0;
			},
			3000, why, 8192);
		if (rc == 0) break;
		// crashed: attribute to the marked edge, log it, and continue after it
		size_t pos = 0;
		long e = -1;
		{
			std::ifstream m(markPath);
			m >> pos >> e;
		}
		crashes++;
		// the crashed child may have left a partial line (stdio flushes full buffers): cut back to the last complete one
		{
			std::string all = readFile(outPath);
			size_t nl = all.rfind('\n');
			size_t keep = nl == std::string::npos ? 0 : nl + 1;
			if (keep != all.size()) truncate(outPath.c_str(), (off_t) keep);
		}
		FILE* out = fopen(outPath.c_str(), "a");
		int n = order[pos];
		std::string act = e >= 0 ? w.nodes[n].out[(size_t) e].act : std::string("{\"op\":\"SaveReload\"}");
		fprintf(out, "{\"e\":\"crash\",\"node\":%zu,\"edge\":%ld,\"why\":%s,\"a\":%s,\"model\":%s}\n", pos, e, J::str(why).s.c_str(), act.c_str(),
				w.nodes[n].key.c_str());
		fclose(out);
		if (crashes > 20) break;
		if (e >= 0) skip.insert({(int) pos, (int) e});
		// NOTE: work done in the crashed child before the crash was logged by it (file is appended); resume at this node
		// but skip the edges before the crashing one to avoid duplicates
		for (long k = 0; k < e; k++) skip.insert({(int) pos, (int) k});
		startPos = pos;
		if (e < 0) startPos = pos + 1;
	}
	unlink(markPath.c_str());
	for (auto& l : readLines(outPath)) {
		if (l.compare(0, 11, "{\"e\":\"stat\"") != 0) continue;
		JV r = jparse(l);
		matched += r["matched"].n;
		mismatched += r["mismatched"].n;
		reloads += r["reloads"].n;
		reloadDiffs += r["reloadDiffs"].n;
		executed += r["executed"].n;
	}
	printf("{\"nodes\":%zu,\"reached\":%zu,\"edges\":%zu,\"executed\":%zu,\"matched\":%zu,\"mismatched\":%zu,\"reloads\":%zu,\"reloadDiffs\":%zu,"
		   "\"crashes\":%zu,\"modelNotOk\":%zu}\n",
		   w.nodes.size(), order.size(), nedges, executed, matched, mismatched, reloads, reloadDiffs, crashes, modelNotOk);
	return 0;
}
Reg r1("c06-walk", cmdWalk);

// c06-random <out.ndjson> <nfiles> <steps>: seeded random edit sequences on the sample files, every step logged
int cmdRandom(int argc, char** argv) {
	if (argc < 4) return 2;
	std::string outPath = argv[1];
	size_t nfiles = strtoul(argv[2], nullptr, 10), steps = strtoul(argv[3], nullptr, 10);
	std::mt19937_64 rng(seedFromEnv() * 1000003 + 6);
	auto files = sampleFiles();
	// smaller files first, then a seeded rotation so that every seed sees different ones
	std::vector<std::pair<size_t, std::string>> bySize;
	for (auto& f : files) bySize.emplace_back(readFile(samplePath(f)).size(), f);
	std::sort(bySize.begin(), bySize.end());
	std::vector<std::string> chosen;
	size_t rot = rng() % bySize.size();
	for (size_t i = 0; i < bySize.size() && chosen.size() < nfiles; i++) {
		auto& c = bySize[(i + rot) % bySize.size()];
		if (c.first < 400000) chosen.push_back(c.second);
	}
	{ Out trunc(outPath); }
	size_t events = 0, crashes = 0;
	// every file as loaded, and (every other one) with a new model created in the object that held it
	std::vector<std::pair<std::string, bool>> runs;
	for (size_t i = 0; i < chosen.size(); i++) {
		runs.emplace_back(chosen[i], false);
		if (i % 2 == 0) runs.emplace_back(chosen[i], true);
	}
	for (auto& run : runs) {
		const std::string src = run.first;
		const bool recreate = run.second;
		const std::string fn = recreate ? src + " (then Create() in the same object)" : src;
		uint64_t caseSeed = rng();
		std::string why;
		int rc = forkRun(
			[&]() -> int {
				std::mt19937_64 r(caseSeed);
				FILE* out = fopen(outPath.c_str(), "a");
				NifFile nif;
				if (nif.Load(samplePath(src)) != 0) { fclose(out); return 0; }
				if (recreate) {
					NiVersion v = nif.GetHeader().GetVersion();
					nif.Create(v);
				}
				auto& hdr = nif.GetHeader();
				for (size_t s = 0; s < steps; s++) {
					// every third step is a NifFile-level edit on nodes and shapes (a composite of the header operations)
					std::string mact = (s % 3 == 2) ? randomModelOp(nif, r) : std::string();
					std::string act = mact.empty() ? randomGraphOp(nif, r) : mact;
					UidMap um;
					ProjOpts po;
					std::string pre = project(nif, um, po);
					if (mact.empty()) applyGraphOp(nif, jparse(act));
					else applyModelOp(nif, jparse(act));
					nif.LinkGeomData();
					std::string post = project(nif, um, po);
					fprintf(out, "{\"e\":\"%s\",\"file\":%s,\"step\":%zu,\"a\":%s,\"pre\":%s,\"post\":%s}\n", mact.empty() ? "step" : "mstep", J::str(fn).s.c_str(), s,
							act.c_str(), pre.c_str(), post.c_str());
					fflush(out);
				}
				{
					UidMap um, um2;
					ProjOpts po;
					std::string pre = project(nif, um, po);
					std::string bytes = saveToString(nif, false, false);
					NifFile re;
					int lrc = loadFromString(re, bytes);
					fprintf(out, "{\"e\":\"reload\",\"file\":%s,\"rc\":%d,\"pre\":%s,\"post\":%s}\n", J::str(fn).s.c_str(), lrc, pre.c_str(),
							lrc == 0 ? project(re, um2, po).c_str() : "{\"blocks\":[]}");
				}
				fclose(out);
				return 0;
			},
			120, why);
		if (rc != 0) {
			crashes++;
			FILE* out = fopen(outPath.c_str(), "a");
			fprintf(out, "{\"e\":\"crash\",\"file\":%s,\"why\":%s,\"a\":{\"op\":\"sequence\"},\"caseSeed\":\"%llu\"}\n", J::str(fn).s.c_str(),
					J::str(why).s.c_str(), (unsigned long long) caseSeed);
			fclose(out);
		}
		events++;
	}
	printf("{\"files\":%zu,\"crashes\":%zu}\n", events, crashes);
	return 0;
}
Reg r2("c06-random", cmdRandom);

} // namespace
