// C13: geometry written through the API is what is read back, in every version.
//   c13-cases <cases.ndjson> <out.ndjson>   TLC-enumerated setter histories on a created shape in six versions
//   c13-limits <out.ndjson>                 limit meshes (1, 2, 65534, 65535 vertices; triangle limits) create + reload
#include "mesh.hpp"
#include <set>

using namespace nifly;
using namespace vh;

namespace {
NiShape* byName(NifFile& nif, const std::string& n) {
	for (auto s : nif.GetShapes())
		if (s->name.get() == n) return s;
	return nullptr;
}
template<typename T>
std::string cidList(const std::vector<T>& v, ContentIds& ids) {
	JArr a;
	for (auto& x : v) a.add(ids.of(&x, sizeof(T)));
	return a.done();
}
float sgn(size_t bits, int k) { return ((bits >> k) & 1) ? 1.0f : -1.0f; }

// reopened: the history runs on the model as loaded from a file the library wrote (it then owns whatever blocks and cached
// data a save creates), not on the freshly created one
void historyOn(NifFile& nif, const std::string& SN, const JV& h, size_t k, const char* ver, bool reopened, const std::string& file, std::string& out);
void history(const JV& h, size_t k, const char* ver, bool reopened, std::string& out) {
	NifFile nif;
	nif.Create(versionByName(ver));
	std::vector<Triangle> tris = {Triangle(0, 1, 2), Triangle(0, 2, 3)};
	NiShape* shape = buildShape(nif, "S", 4, tris, true);
	if (!shape) return;
	if (reopened) {
		std::string bytes = saveToString(nif, true, true);
		if (loadFromString(nif, bytes) != 0) return;
		shape = byName(nif, "S");
		if (!shape) return;
	}
	historyOn(nif, "S", h, k, ver, reopened, "", out);
}
// the history on the shape named SN of a live model (constructed, or a sample file's: every geometry kind the samples hold)
void historyOn(NifFile& nif, const std::string& SN, const JV& h, size_t k, const char* ver, bool reopened, const std::string& file, std::string& out) {
	NiShape* shape = byName(nif, SN);
	if (!shape) return;
	bool bs = dynamic_cast<BSTriShape*>(shape) != nullptr;
	ContentIds ids;
	size_t step = 0;
	std::set<std::string> written; // per-vertex arrays given through the API so far (their values are exact in every format)
	written.insert("verts");
	auto reloadCheck = [&](const std::string& cjs) -> bool {
		struct { std::string s; std::string done() { return s; } } cj{cjs};
		std::string t = projectShape(nif, shape, ids);
		NifFile copy(nif);
		NifFile re;
		if (loadFromString(re, saveToString(copy, true, true)) != 0) return false;
		NiShape* rs = byName(re, SN);
		if (!rs) return false;
		// the first reload brings every value to the storage precision of the format: compare from the second on
		std::string r1 = projectShape(re, rs, ids);
		NifFile re2;
		NifFile copy2(re);
		if (loadFromString(re2, saveToString(copy2, true, true)) != 0) return false;
		NiShape* rs2 = byName(re2, SN);
		if (!rs2) return false;
		JObj ev;
		ev.add("e", "reloadsame").raw("case", cj.done()).raw("t", r1).raw("r", projectShape(re2, rs2, ids));
		out += ev.done() + "\n";
		// what was written through the API is what the reloaded file gives back (the values used are exact in every
		// format's storage precision)
		JObj ev0;
		JArr wr;
		for (auto& w : written) wr.add(w);
		ev0.add("e", "reloadfirst").raw("case", cj.done()).raw("written", wr.done()).raw("t", t).raw("r", r1);
		out += ev0.done() + "\n";
		return true;
	};
	for (auto& opv : h.a) {
		shape = byName(nif, SN);
		if (!shape) return;
		const std::string op = opv["op"].s;
		size_t v = (size_t) opv["v"].n;
		size_t nv = shape->GetNumVertices();
		JObj cj;
		cj.add("case", (long long) k).add("ver", ver).add("step", (long long) step++).add("reopened", reopened).add("file", file).add("shape", SN);
		if (op == "reload") {
			if (!reloadCheck(cj.done())) return;
			continue;
		}
		if (op == "eye" && !bs) continue;
		if (op == "all") {
			// every array a tool fills after giving a shape its vertices; judged by the reload checks that follow
			std::vector<Vector2> uv;
			std::vector<Vector3> no, ta, bi;
			std::vector<Color4> co;
			for (size_t i = 0; i < nv; i++) {
				uv.emplace_back(0.125f * float(i % 8) + 0.25f * float(v), 0.5f * float(v));
				no.emplace_back(sgn(i + v + 1, 0), sgn(i + v + 1, 1), sgn(i + v, 2));
				ta.emplace_back(sgn(i + v + 3, 0), sgn(i + v + 3, 1), sgn(i * 3 + v, 2));
				bi.emplace_back(sgn(i + v + 5, 0), sgn(i + v + 5, 1), sgn(i * 5 + v, 2));
				co.emplace_back(float((i + v) & 1), float(((i + v) >> 1) & 1), float(v & 1), 1.0f);
			}
			nif.SetUvsForShape(shape, uv);
			nif.SetNormalsForShape(shape, no);
			nif.SetTangentsForShape(shape, ta);
			nif.SetBitangentsForShape(shape, bi);
			nif.SetColorsForShape(shape, co);
			for (auto w : {"uvs", "normals", "tangents", "bitangents", "colors"}) written.insert(w);
			continue;
		}
		if (op == "vertsN") written.clear();
		if (op == "verts" || op == "vertsN") written.insert("verts");
		else if (op != "tris") written.insert(op);
		std::string s = projectShape(nif, shape, ids);
		std::string given;
		std::string attr = op;
		if (op == "verts" || op == "vertsN") {
			size_t n = op == "verts" ? nv : (v == 0 ? nv + 1 : (v == 1 ? std::max<size_t>(1, nv - 1) : nv + 3));
			if (op == "vertsN" && n == nv) n = nv + 2;
			std::vector<Vector3> d;
			for (size_t i = 0; i < n; i++) d.emplace_back(float((i % 512) + 8 * v), float(v + i / 512), 1.0f);
			given = cidList(d, ids);
			nif.SetVertsForShape(shape, d);
			if (op == "vertsN") {
				// the documented effect of a new vertex count is that other vertex data is dropped and triangles are the
				// caller's business: log the step, then give the shape triangles that fit the new count
				std::string t = projectShape(nif, shape, ids);
				JObj ev;
				ev.add("e", "setget").raw("case", cj.done()).add("attr", attr).raw("given", given).raw("s", s).raw("t", t);
				out += ev.done() + "\n";
				std::vector<Triangle> nt;
				if (n >= 3) nt.emplace_back(0, 1, 2);
				if (n >= 4) nt.emplace_back(0, 2, 3);
				shape->SetTriangles(nt);
				continue;
			}
		}
		else if (op == "uvs") {
			std::vector<Vector2> d;
			for (size_t i = 0; i < nv; i++) d.emplace_back(0.125f * float(i % 8) + 0.25f * float(v), 0.5f * float(v));
			given = cidList(d, ids);
			nif.SetUvsForShape(shape, d);
		}
		else if ((op == "normals" || op == "tangents" || op == "bitangents") && v == 2 && step % 2 == 1) {
			// values that the packed formats (one byte per component) cannot hold exactly: what comes back is within half a
			// storage step (1/255) of what was given; versions that keep floats give back the floats
			std::vector<Vector3> d;
			size_t salt = op == "normals" ? 1 : (op == "tangents" ? 3 : 5);
			for (size_t i = 0; i < nv; i++)
				d.emplace_back(float(int((i * 37 + 11 * salt) % 199) - 99) / 100.0f, float(int((i * 53 + 7 * salt) % 197) - 98) / 100.0f,
							   float(int((i * 29 + 3 * salt) % 193) - 96) / 100.0f);
			if (op == "normals") nif.SetNormalsForShape(shape, d);
			else if (op == "tangents") nif.SetTangentsForShape(shape, d);
			else nif.SetBitangentsForShape(shape, d);
			written.erase(op);
			const std::vector<Vector3>* got = op == "normals" ? nif.GetNormalsForShape(shape) : (op == "tangents" ? nif.GetTangentsForShape(shape) : nif.GetBitangentsForShape(shape));
			double dev = 0;
			bool count = got && got->size() == d.size();
			if (count)
				for (size_t i = 0; i < d.size(); i++) {
					dev = std::max(dev, (double) std::fabs((*got)[i].x - d[i].x));
					dev = std::max(dev, (double) std::fabs((*got)[i].y - d[i].y));
					dev = std::max(dev, (double) std::fabs((*got)[i].z - d[i].z));
				}
			JObj ev;
			ev.add("e", "approx").raw("case", cj.done()).add("attr", attr).add("count", count).add("dev1000", (long long) llround(std::min(dev, 100.0) * 255.0 * 1000.0));
			out += ev.done() + "\n";
			continue;
		}
		else if (op == "normals" || op == "tangents" || op == "bitangents") {
			std::vector<Vector3> d;
			size_t salt = op == "normals" ? 1 : (op == "tangents" ? 3 : 5);
			for (size_t i = 0; i < nv; i++) d.emplace_back(sgn(i + v + salt, 0), sgn(i + v + salt, 1), sgn(i * salt + v, 2));
			given = cidList(d, ids);
			if (op == "normals") nif.SetNormalsForShape(shape, d);
			else if (op == "tangents") nif.SetTangentsForShape(shape, d);
			else nif.SetBitangentsForShape(shape, d);
		}
		else if (op == "colors") {
			std::vector<Color4> d;
			for (size_t i = 0; i < nv; i++) d.emplace_back(float((i + v) & 1), float(((i + v) >> 1) & 1), float(v & 1), 1.0f);
			given = cidList(d, ids);
			nif.SetColorsForShape(shape, d);
		}
		else if (op == "eye") {
			std::vector<float> d;
			for (size_t i = 0; i < nv; i++) d.push_back(0.5f + float(v) + float(i % 2));
			given = cidList(d, ids);
			NifFile::SetEyeDataForShape(shape, d);
		}
		else if (op == "tris") {
			std::vector<Triangle> d;
			if (nv >= 4) {
				if (v == 0) d = {Triangle(0, 1, 2), Triangle(0, 2, 3)};
				else if (v == 1) d = {Triangle(1, 2, 3), Triangle(0, 1, 3)};
				else d = {Triangle(0, 1, 2), Triangle(1, 1, 2)}; // (with a degenerate triangle: a triangle like any other)
			}
			else if (nv == 3) d = {Triangle(0, 1, 2)};
			JArr a;
			for (auto& t : d) {
				JArr b;
				b.add((long long) t.p1).add((long long) t.p2).add((long long) t.p3);
				a.add(b);
			}
			given = a.done();
			// (one variant first takes every triangle away: the new list then arrives in a shape that has none)
			if (v == 1) shape->SetTriangles(std::vector<Triangle>());
			shape->SetTriangles(d);
		}
		else
			continue;
		std::string t = projectShape(nif, shape, ids);
		JObj ev;
		ev.add("e", "setget").raw("case", cj.done()).add("attr", attr).raw("given", given).raw("s", s).raw("t", t);
		out += ev.done() + "\n";
	}
	// every history ends with a save and reload
	shape = byName(nif, SN);
	if (shape && !h.a.empty() && h.a.back()["op"].s != "reload") {
		JObj cj;
		cj.add("case", (long long) k).add("ver", ver).add("step", (long long) step).add("reopened", reopened).add("file", file).add("shape", SN).add("final", true);
		reloadCheck(cj.done());
	}
}

// c13-samples <out.ndjson>: single-setter histories (+ the composite fill) on up to three shapes of every sample file, so that
// every geometry kind the samples hold (dynamic, LOD, sub-index, strips-free legacy, Starfield geometry) is written to
int cmdSamples(int argc, char** argv) {
	if (argc < 2) return 2;
	std::string outPath = argv[1];
	auto files = sampleFiles();
	{ Out trunc(outPath); }
	const char* ops[] = {"verts", "uvs", "normals", "tangents", "bitangents", "colors", "eye", "tris", "all"};
	size_t crashes = runForkedCases(
		files.size(), outPath, 600,
		[&](size_t fi, std::string& out) {
			NifFile probe;
			if (probe.Load(samplePath(files[fi])) != 0) return;
			auto names = probe.GetShapeNames();
			std::string ver = versionName(probe.GetHeader().GetVersion());
			size_t count = 0;
			for (auto& sn : names) {
				auto ps = byName(probe, sn);
				if (!ps || ps->GetNumVertices() == 0 || ps->GetNumVertices() > 6000) continue;
				if (count++ >= 3) break;
				for (auto op : ops) {
					// eye data of dynamic shapes is derived from the positions on save (by design); new triangles on a skinned
					// shape need a partition rebuild, which is C10's subject
					if (std::string(op) == "eye" && dynamic_cast<BSDynamicTriShape*>(ps)) continue;
					if (std::string(op) == "tris" && (ps->IsSkinned() || (ps->SkinInstanceRef() && !ps->SkinInstanceRef()->IsEmpty()))) continue;
					NifFile nif;
					if (nif.Load(samplePath(files[fi])) != 0) return;
					JArr h;
					JObj o;
					o.add("op", op).add("v", (long long) (fi % 3));
					h.raw(o.done());
					JV hv = jparse(h.done());
					historyOn(nif, sn, hv, fi, ver.c_str(), true, files[fi], out);
				}
			}
		},
		[&](size_t fi, const std::string& why, FILE* out) {
			fprintf(out, "{\"e\":\"crash\",\"chunk\":%zu,\"file\":%s,\"why\":%s}\n", fi, J::str(files[fi]).s.c_str(), J::str(why).s.c_str());
		});
	printf("{\"files\":%zu,\"crashes\":%zu}\n", files.size(), crashes);
	return 0;
}

int cmdCases(int argc, char** argv) {
	if (argc < 3) return 2;
	auto lines = readLines(argv[1]);
	std::string outPath = argv[2];
	{ Out trunc(outPath); }
	size_t chunk = 100, nchunks = (lines.size() + chunk - 1) / chunk;
	size_t crashes = runForkedCases(
		nchunks, outPath, 300,
		[&](size_t ci, std::string& out) {
			for (size_t k = ci * chunk; k < std::min(lines.size(), (ci + 1) * chunk); k++) {
				JV rec = jparse(lines[k]);
				for (const char* ver : {"OB", "FO3", "SK", "SSE", "FO4", "FO76"})
					for (bool reopened : {false, true}) history(rec["c"]["h"], k, ver, reopened, out);
			}
		},
		[&](size_t ci, const std::string& why, FILE* out) { fprintf(out, "{\"e\":\"crash\",\"chunk\":%zu,\"why\":%s}\n", ci, J::str(why).s.c_str()); });
	printf("{\"cases\":%zu,\"crashes\":%zu}\n", lines.size(), crashes);
	return 0;
}

// limit meshes: created from data, read back immediately and after save + reload; arrays are compared as whole-array content ids
int cmdLimits(int argc, char** argv) {
	if (argc < 2) return 2;
	std::string outPath = argv[1];
	{ Out trunc(outPath); }
	struct L {
		const char* ver;
		size_t nv, nt;
	};
	std::vector<L> cases;
	for (const char* ver : {"OB", "FO3", "SK", "SSE", "FO4", "FO76"}) {
		for (size_t nv : {size_t(1), size_t(2), size_t(3), size_t(1000), size_t(65534), size_t(65535)}) cases.push_back({ver, nv, nv >= 3 ? std::min<size_t>(nv - 2, 70000) : 0});
		cases.push_back({ver, 40000, 65535});
		cases.push_back({ver, 40000, 65536});
		cases.push_back({ver, 40000, 70000});
	}
	size_t crashes = runForkedCases(
		cases.size(), outPath, 200,
		[&](size_t k, std::string& out) {
			NifFile nif;
			nif.Create(versionByName(cases[k].ver));
			size_t nv = cases[k].nv, nt = cases[k].nt;
			std::vector<Vector3> v;
			std::vector<Vector2> uv;
			std::vector<Triangle> t;
			for (size_t i = 0; i < nv; i++) {
				v.emplace_back(float(i % 2048), float(i / 2048), 0.0f);
				uv.emplace_back(0.125f * float(i % 8), 0.125f * float((i / 8) % 8));
			}
			for (size_t i = 0; i < nt; i++) t.emplace_back(uint16_t(i % (nv - 2)), uint16_t(i % (nv - 2) + 1), uint16_t(i % (nv - 2) + 2));
			NiShape* s = nif.CreateShapeFromData("S", &v, &t, &uv, nullptr);
			if (!s) return;
			auto digest = [&](NifFile& f, NiShape* sh, ContentIds& ids) {
				std::vector<Vector3> gv;
				std::vector<Vector2> guv;
				std::vector<Triangle> gt;
				f.GetVertsForShape(sh, gv);
				f.GetUvsForShape(sh, guv);
				sh->GetTriangles(gt);
				JObj o;
				o.add("nv", gv.size()).add("nt", gt.size()).add("nuv", guv.size());
				o.add("verts", ids.of(gv.data(), gv.size() * sizeof(Vector3))).add("uvs", ids.of(guv.data(), guv.size() * sizeof(Vector2)));
				o.add("tris", ids.of(gt.data(), gt.size() * sizeof(Triangle)));
				return o.done();
			};
			ContentIds ids;
			JObj given;
			// 16-bit triangle counts before FO4 (GetTriangleLimit() reports "unlimited" for user version 11, see DESIGN.md)
			size_t triLimit = (nif.GetHeader().GetVersion().Stream() < 130) ? 65535 : 0xFFFFFFFFu;
			given.add("nv", nv).add("nt", nt).add("nuv", nv).add("verts", ids.of(v.data(), v.size() * sizeof(Vector3))).add("uvs", ids.of(uv.data(), uv.size() * sizeof(Vector2)));
			given.add("tris", ids.of(t.data(), t.size() * sizeof(Triangle)));
			JObj ev;
			ev.add("e", "limit").add("ver", cases[k].ver).add("withinLimits", nt <= triLimit).raw("given", given.done()).raw("got", digest(nif, s, ids));
			NifFile re;
			bool reloaded = loadFromString(re, saveToString(nif, true, true)) == 0;
			ev.add("reloaded", reloaded);
			if (reloaded) {
				NiShape* rs = byName(re, "S");
				if (rs) ev.raw("r", digest(re, rs, ids));
				else ev.add("reloaded2", false);
			}
			out += ev.done() + "\n";
		},
		[&](size_t k, const std::string& why, FILE* out) {
			fprintf(out, "{\"e\":\"crash\",\"case\":{\"ver\":\"%s\",\"nv\":%zu,\"nt\":%zu},\"why\":%s}\n", cases[k].ver, cases[k].nv, cases[k].nt, J::str(why).s.c_str());
		});
	printf("{\"cases\":%zu,\"crashes\":%zu}\n", cases.size(), crashes);
	return 0;
}
Reg r1("c13-cases", cmdCases);
Reg r2("c13-limits", cmdLimits);
Reg r3("c13-samples", cmdSamples);
} // namespace
