// The read-only query battery: every public query of NifFile that a viewer/editor would call, digested into
// one content id per query so that two batteries can be compared query by query (C02, C11) and so that faults
// (C15, C16) exercise every accessor.
#include "battery.hpp"
#include <unordered_map>

using namespace nifly;

namespace vh {
namespace {
struct Dig {
	std::string buf;
	void raw(const void* p, size_t n) { buf.append((const char*) p, n); }
	template<typename T>
	void pod(const T& v) { raw(&v, sizeof v); }
	void str(const std::string& s) {
		pod((uint32_t) s.size());
		raw(s.data(), s.size());
	}
	template<typename T>
	void vec(const std::vector<T>& v) {
		pod((uint32_t) v.size());
		if (!v.empty()) raw(v.data(), v.size() * sizeof(T));
	}
};
} // namespace

std::string battery(NifFile& nif, ContentIds& ids, bool asJson) {
	std::vector<std::pair<std::string, int>> items;
	auto put = [&](const std::string& name, Dig& d) { items.emplace_back(name, ids.of(d.buf)); };
	auto& hdr = nif.GetHeader();
	{
		Dig d;
		d.pod(nif.IsValid());
		d.pod(nif.HasUnknown());
		d.pod(nif.IsTerrain());
		d.pod(hdr.GetNumBlocks());
		d.str(hdr.GetVersion().GetVersionInfo());
		d.pod(nif.GetTriangleLimit());
		put("file", d);
	}
	{
		Dig d;
		for (uint32_t i = 0; i < hdr.GetNumBlocks(); i++) {
			d.str(hdr.GetBlockTypeStringById(i));
			d.pod(hdr.GetBlockTypeIndex(i));
			d.str(nif.GetNodeName(i));
			d.pod(hdr.IsBlockReferenced(i));
			d.pod(hdr.GetBlockRefCount(i));
		}
		put("blocks", d);
	}
	{
		Dig d;
		auto root = nif.GetRootNode();
		d.pod(nif.GetBlockID(root));
		for (auto n : nif.GetNodes()) {
			d.str(n->name.get());
			d.pod(nif.GetBlockID(nif.GetParentNode(n)));
			d.pod(NifFile::CanDeleteNode(n));
			MatTransform t;
			bool ok = nif.GetNodeTransformToGlobal(n->name.get(), t);
			d.pod(ok);
			if (ok) {
				d.pod(t.translation);
				d.pod(t.scale);
			}
			ok = nif.GetNodeTransformToParent(n->name.get(), t);
			d.pod(ok);
			if (ok) d.pod(t.translation);
		}
		std::vector<NiObject*> tree;
		nif.GetTree(tree);
		for (auto o : tree) d.pod(nif.GetBlockID(o));
		for (auto c : nif.GetChildren<NiNode>()) d.pod(nif.GetBlockID(c));
		for (auto c : nif.GetChildren<NiObject>(nullptr, true)) d.pod(nif.GetBlockID(c));
		Vector3 rt;
		nif.GetRootTranslation(rt);
		d.pod(rt);
		put("nodes", d);
	}
	{
		Dig d;
		for (auto& n : nif.GetShapeNames()) d.str(n);
		d.pod(nif.IsSSECompatible());
		put("shapeNames", d);
	}
	int si = 0;
	for (auto shape : nif.GetShapes()) {
		std::string p = "shape" + std::to_string(si++) + ".";
		{
			Dig d;
			d.str(shape->name.get());
			d.str(shape->GetBlockName());
			d.pod(shape->GetNumVertices());
			d.pod(shape->GetNumTriangles());
			d.pod(shape->HasNormals());
			d.pod(shape->HasTangents());
			d.pod(shape->HasVertexColors());
			d.pod(shape->HasUVs());
			d.pod(shape->IsSkinned());
			d.pod(nif.IsSSECompatible(shape));
			d.pod(nif.GetBlockID(nif.GetParentNode(shape)));
			put(p + "info", d);
		}
		{
			Dig d;
			std::vector<Vector3> v;
			d.pod(nif.GetVertsForShape(shape, v));
			d.vec(v);
			if (auto pv = nif.GetVertsForShape(shape)) d.vec(*pv);
			put(p + "verts", d);
		}
		{
			Dig d;
			std::vector<Triangle> t;
			d.pod(shape->GetTriangles(t));
			d.vec(t);
			put(p + "tris", d);
		}
		{
			Dig d;
			std::vector<Vector2> uv;
			d.pod(nif.GetUvsForShape(shape, uv));
			d.vec(uv);
			if (auto pv = nif.GetUvsForShape(shape)) d.vec(*pv);
			put(p + "uvs", d);
		}
		{
			Dig d;
			if (auto pv = nif.GetNormalsForShape(shape)) d.vec(*pv);
			std::vector<Vector3> t, b;
			d.pod(nif.GetTangentsForShape(shape, t));
			d.vec(t);
			d.pod(nif.GetBitangentsForShape(shape, b));
			d.vec(b);
			if (auto pv = nif.GetTangentsForShape(shape)) d.vec(*pv);
			if (auto pv = nif.GetBitangentsForShape(shape)) d.vec(*pv);
			put(p + "normalsTangents", d);
		}
		{
			Dig d;
			std::vector<Color4> c;
			d.pod(nif.GetColorsForShape(shape, c));
			d.vec(c);
			if (auto pv = nif.GetColorsForShape(shape)) d.vec(*pv);
			std::vector<float> eye;
			d.pod(NifFile::GetEyeDataForShape(shape, eye));
			d.vec(eye);
			put(p + "colorsEye", d);
		}
		{
			Dig d;
			auto shader = nif.GetShader(shape);
			d.pod(nif.GetBlockID(shader));
			if (shader) {
				d.str(shader->GetBlockName());
				d.pod(shader->IsSkinned());
				d.pod(shader->IsModelSpace());
				d.pod(shader->HasVertexColors());
			}
			for (auto& t : nif.GetTexturePathRefs(shape)) d.str(t.get());
			for (uint32_t k = 0; k < 10; k++) {
				std::string tex;
				d.pod(nif.GetTextureSlot(shape, tex, k));
				d.str(tex);
			}
			d.pod(nif.GetBlockID(nif.GetAlphaProperty(shape)));
			d.pod(nif.GetBlockID(nif.GetMaterialProperty(shape)));
			d.pod(nif.GetBlockID(nif.GetStencilProperty(shape)));
			d.pod(nif.GetBlockID(nif.GetTexturingProperty(shape)));
			d.pod(nif.GetBlockID(nif.GetGeometryData(shape)));
			put(p + "shaderTextures", d);
		}
		{
			Dig d;
			std::vector<std::string> bones;
			d.pod(nif.GetShapeBoneList(shape, bones));
			for (auto& b : bones) d.str(b);
			std::vector<int> ids2;
			d.pod(nif.GetShapeBoneIDList(shape, ids2));
			d.vec(ids2);
			put(p + "bones", d);
			Dig w;
			for (uint32_t bi = 0; bi < bones.size() && bi < 300; bi++) {
				std::unordered_map<uint16_t, float> ws;
				w.pod(nif.GetShapeBoneWeights(shape, bi, ws));
				std::vector<std::pair<uint16_t, float>> sorted(ws.begin(), ws.end());
				std::sort(sorted.begin(), sorted.end());
				for (auto& kv : sorted) {
					w.pod(kv.first);
					w.pod(kv.second);
				}
				MatTransform t;
				bool ok = nif.GetShapeTransformSkinToBone(shape, bi, t);
				w.pod(ok);
				if (ok) {
					w.pod(t.translation);
					w.pod(t.scale);
				}
				BoundingSphere bs;
				ok = nif.GetShapeBoneBounds(shape, bi, bs);
				w.pod(ok);
				if (ok) w.pod(bs);
			}
			// the weight lists as the skin data block holds them (entries per bone; the accessor above drops zero weights)
			{
				std::vector<uint32_t> kids;
				shape->GetChildIndices(kids);
				for (auto kid : kids)
					if (auto si = hdr.GetBlock<NiSkinInstance>(kid))
						if (auto sd = hdr.GetBlock(si->dataRef))
							for (auto& bd : sd->bones) {
								w.pod(uint32_t(bd.numVertices));
								w.pod(uint32_t(bd.vertexWeights.size()));
							}
			}
			MatTransform g;
			bool ok = nif.GetShapeTransformGlobalToSkin(shape, g);
			w.pod(ok);
			if (ok) w.pod(g.translation);
			ok = nif.CalcShapeTransformGlobalToSkin(shape, g);
			w.pod(ok);
			put(p + "weights", w);
		}
		{
			Dig d;
			NiVector<BSDismemberSkinInstance::PartitionInfo> pinfo;
			std::vector<int> triParts;
			d.pod(nif.GetShapePartitions(shape, pinfo, triParts));
			d.pod(pinfo.size());
			for (auto& pi : pinfo) {
				d.pod(pi.flags);
				d.pod(pi.partID);
			}
			d.vec(triParts);
			put(p + "partitions", d);
		}
		{
			Dig d;
			NifSegmentationInfo inf;
			std::vector<int> triParts;
			d.pod(NifFile::GetShapeSegments(shape, inf, triParts));
			d.str(inf.ssfFile);
			for (auto& s : inf.segs) {
				d.pod(s.partID);
				for (auto& sub : s.subs) {
					d.pod(sub.partID);
					d.pod(sub.userSlotID);
					d.pod(sub.material);
					d.vec(sub.extraData);
				}
			}
			d.vec(triParts);
			put(p + "segments", d);
		}
		{
			Dig d;
			std::vector<Vector3> t, b;
			d.pod(nif.GetBlockID(nif.GetBinaryTangentData(shape, &t, &b)));
			d.vec(t);
			d.vec(b);
			for (auto& m : nif.GetExternalGeometryPathRefs(shape)) d.str(m.get());
			put(p + "extra", d);
		}
	}
	if (!asJson) {
		Dig all;
		for (auto& it : items) {
			all.str(it.first);
			all.pod(it.second);
		}
		return std::to_string(ids.of(all.buf));
	}
	JObj o;
	for (auto& it : items) o.add(it.first.c_str(), it.second);
	return o.done();
}

long long batteryNames(NifFile& nif, ContentIds& ids) {
	auto& hdr = nif.GetHeader();
	std::string buf;
	auto str = [&](const std::string& x) {
		buf += x;
		buf.push_back('\0');
	};
	auto nameOf = [&](uint32_t id) -> std::string {
		if (auto n = hdr.GetBlock<NiObjectNET>(id)) return n->GetBlockName() + std::string(":") + n->name.get();
		if (auto o = hdr.GetBlock<NiObject>(id)) return o->GetBlockName();
		return id == NIF_NPOS ? "-" : "?";
	};
	// nodes and shapes in name order (block order moves under a sorting save)
	std::vector<std::string> lines;
	// (nodes that nothing references are pruned by a default save: only what hangs below the root is listed)
	std::vector<NiObject*> tree;
	nif.GetTree(tree);
	for (auto o : tree)
		if (auto n = dynamic_cast<NiNode*>(o)) {
			auto p = nif.GetParentNode(n);
			lines.push_back("node " + n->name.get() + " < " + (p ? p->name.get() : std::string("-")));
		}
	for (auto shape : nif.GetShapes()) {
		if (std::find(tree.begin(), tree.end(), (NiObject*) shape) == tree.end()) continue;
		std::string l = "shape " + shape->name.get() + " " + shape->GetBlockName();
		auto p = nif.GetParentNode(shape);
		l += " < " + (p ? p->name.get() : std::string("-"));
		std::vector<std::string> bones;
		nif.GetShapeBoneList(shape, bones);
		for (auto& b : bones) l += " b:" + b;
		if (auto si = hdr.GetBlock<NiSkinInstance>(shape->SkinInstanceRef())) l += " root:" + nameOf(si->targetRef.index);
		else if (auto bi = hdr.GetBlock<BSSkinInstance>(shape->SkinInstanceRef())) l += " root:" + nameOf(bi->targetRef.index);
		// how many bone entries the skin has, placeholders included (bones that are given by name only keep an empty entry each)
		// (found through the shape's own reference list: every shape kind lists its skin there)
		{
			std::vector<uint32_t> kids;
			shape->GetChildIndices(kids);
			for (auto kid : kids) {
				if (auto si = hdr.GetBlock<NiSkinInstance>(kid)) l += " entries:" + std::to_string(si->boneRefs.GetSize());
				else if (auto bi = hdr.GetBlock<BSSkinInstance>(kid)) l += " entries:" + std::to_string(bi->boneRefs.GetSize());
			}
		}
		if (auto sh = nif.GetShader(shape)) l += " shader:" + std::string(sh->GetBlockName()) + ":" + sh->name.get();
		for (uint32_t t = 0; t < 10; t++) {
			std::string tex;
			if (nif.GetTextureSlot(shape, tex, t)) l += " t:" + tex;
		}
		lines.push_back(l);
	}
	std::sort(lines.begin(), lines.end());
	for (auto& l : lines) str(l);
	if (getenv("NVH_DEBUG_NAMES"))
		for (auto& l : lines) fprintf(stderr, "names: %s\n", l.c_str());
	return ids.of(buf);
}
} // namespace vh
