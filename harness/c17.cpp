// C17 / C10: segment and partition labels, partition coverage.
//   c17-cases <cases.ndjson> <out.ndjson>   TLC-enumerated label lists: FO4 segmentation (set, get, delete a vertex,
//                                           save, reload) and dismember partition assignment in OB/FO3/SK/SSE
//   c10-run <out.ndjson> <nrandom>          constructed skinned meshes (few and many bones) and sample files through
//                                           UpdateSkinPartitions / SetShapePartitions / SetDefaultPartition /
//                                           DeletePartitions / RemoveEmptyPartitions / save+reload
#include "mesh.hpp"

using namespace nifly;
using namespace vh;

namespace {
NiShape* byName(NifFile& nif, const std::string& n) {
	for (auto s : nif.GetShapes())
		if (s->name.get() == n) return s;
	return nullptr;
}
int boneLimitOf(const NiVersion& v) {
	if (v.IsOB() || v.IsFO3()) return 18;
	if (v.IsSSE()) return 80;
	return 1000000;
}
std::vector<Triangle> fan(size_t nt) {
	std::vector<Triangle> t;
	for (size_t i = 0; i < nt; i++) t.emplace_back(0, uint16_t(i + 1), uint16_t(i + 2));
	return t;
}
std::string intsJson(const std::vector<int>& v) {
	JArr a;
	for (auto x : v) a.add((long long) x);
	return a.done();
}

void segmentCase(const JV& c, size_t k, const char* ver, std::string& out) {
	size_t nt = (size_t) c["nt"].n;
	NifFile gen;
	gen.Create(versionByName(ver));
	if (!buildShape(gen, "S", nt + 2, fan(nt), true)) return;
	NifFile nif;
	if (loadFromString(nif, saveToString(gen, false, false)) != 0) return;
	NiShape* shape = byName(nif, "S");
	if (!shape) return;
	NifSegmentationInfo inf;
	for (auto& s : c["info"].a) {
		NifSegmentInfo si;
		si.partID = (int) s["id"].n;
		for (auto& sub : s["subs"].a) {
			NifSubSegmentInfo ss;
			ss.partID = (int) sub.n;
			ss.userSlotID = 30 + (uint32_t) sub.n;
			ss.material = 0x12345 + (uint32_t) sub.n;
			si.subs.push_back(ss);
		}
		inf.segs.push_back(si);
	}
	std::vector<int> L;
	for (auto v : c["L"].ints()) L.push_back((int) v);
	ContentIds ids;
	std::string s0 = projectShape(nif, shape, ids);
	NifFile::SetShapeSegments(shape, inf, L);
	std::string t0 = projectShape(nif, shape, ids);
	JObj ev;
	ev.add("e", "segments").add("case", (long long) k).add("ver", ver).raw("info", toJson(c["info"])).raw("L", intsJson(L)).raw("s", s0).raw("t", t0);
	bool reloaded = false;
	{
		NifFile copy(nif);
		NifFile re;
		if (loadFromString(re, saveToString(copy, true, true)) == 0)
			if (auto rs = byName(re, "S")) {
				ev.raw("r", projectShape(re, rs, ids));
				reloaded = true;
			}
	}
	ev.add("reloaded", reloaded);
	out += ev.done() + "\n";
	// a vertex in the middle: removes up to three consecutive triangles, wherever they lie in their segment's range
	if (nt >= 3) {
		NifFile mid(nif);
		if (auto ms = byName(mid, "S")) {
			std::vector<uint16_t> idx = {uint16_t(nt / 2 + 1)};
			ContentIds idm;
			std::string s1 = projectShape(mid, ms, idm);
			bool all = mid.DeleteVertsForShape(ms, idx);
			std::string t1 = projectShape(mid, ms, idm);
			JObj e2;
			JObj cj;
			cj.add("case", (long long) k).add("ver", ver).add("after", "SetShapeSegments (middle vertex)");
			e2.add("e", "delverts").raw("case", cj.done()).raw("I", u16json(idx)).add("allDeleted", all).add("checkParts", false).add("boneLimit", 1000000);
			e2.raw("s", s1).raw("t", t1).add("reloaded", false);
			out += e2.done() + "\n";
		}
	}
	// "these facts still hold after vertex deletion": delete the last vertex (removes the last triangle) and an unused one
	if (nt >= 1) {
		std::vector<uint16_t> idx = {uint16_t(nt + 1)};
		ContentIds ids2;
		std::string s1 = projectShape(nif, shape, ids2);
		bool all = nif.DeleteVertsForShape(shape, idx);
		std::string t1 = projectShape(nif, shape, ids2);
		JObj e2;
		JObj cj;
		cj.add("case", (long long) k).add("ver", ver).add("after", "SetShapeSegments");
		e2.add("e", "delverts").raw("case", cj.done()).raw("I", u16json(idx)).add("allDeleted", all).add("checkParts", false).add("boneLimit", 1000000);
		e2.raw("s", s1).raw("t", t1).add("reloaded", false);
		out += e2.done() + "\n";
		// and a second deletion on the same shape (histories matter: state kept between deletions)
		if (!all && nt >= 2) {
			std::vector<uint16_t> idx2 = {uint16_t(nt)};
			ContentIds ids3;
			std::string s2 = projectShape(nif, shape, ids3);
			bool all2 = nif.DeleteVertsForShape(shape, idx2);
			std::string t2 = projectShape(nif, shape, ids3);
			JObj e3;
			JObj cj3;
			cj3.add("case", (long long) k).add("ver", ver).add("after", "SetShapeSegments+DeleteVerts");
			e3.add("e", "delverts").raw("case", cj3.done()).raw("I", u16json(idx2)).add("allDeleted", all2).add("checkParts", false).add("boneLimit", 1000000);
			e3.raw("s", s2).raw("t", t2);
			bool rl = false;
			if (!all2) {
				NifFile copy(nif);
				NifFile re;
				if (loadFromString(re, saveToString(copy, true, true)) == 0)
					if (auto rs = byName(re, "S")) {
						e3.raw("r", projectShape(re, rs, ids3));
						rl = true;
					}
			}
			e3.add("reloaded", rl);
			out += e3.done() + "\n";
		}
	}
}

// strips: the file stores the skin partitions as triangle strips (Oblivion / Fallout 3 exporters), and the assignment is the
// first thing done to the loaded model
void partAssignCase(const JV& c, size_t k, const char* ver, bool strips, std::string& out) {
	size_t nt = (size_t) c["nt"].n, np = (size_t) c["np"].n;
	NifFile made, twin;
	made.Create(versionByName(ver));
	NiShape* shape = buildShape(made, "S", nt + 2, fan(nt), true);
	if (!shape) return;
	skinShape(made, shape, 2, [](uint16_t v) {
		std::vector<std::pair<int, float>> w;
		w.emplace_back(int(v % 2), 1.0f);
		return w;
	});
	NifFile loaded;
	if (strips) {
		auto& hd = made.GetHeader();
		auto si = hd.GetBlock<NiSkinInstance>(shape->SkinInstanceRef());
		auto sp = si ? hd.GetBlock(si->skinPartitionRef) : nullptr;
		if (!sp) return;
		for (auto& p : sp->partitions) {
			if (p.triangles.empty()) continue;
			p.strips.clear();
			p.stripLengths.clear();
			for (auto& t : p.triangles) {
				p.strips.push_back({t.p1, t.p2, t.p3});
				p.stripLengths.push_back(3);
			}
			p.numStrips = uint16_t(p.strips.size());
			p.triangles.clear();
		}
		std::string bytes = saveToString(made, false, false);
		if (loadFromString(loaded, bytes) != 0 || loadFromString(twin, bytes) != 0) return;
	}
	NifFile& nif = strips ? loaded : made;
	shape = byName(nif, "S");
	if (!shape) return;
	NiVector<BSDismemberSkinInstance::PartitionInfo> pinfo;
	for (size_t i = 0; i < np; i++) {
		BSDismemberSkinInstance::PartitionInfo pi;
		pi.partID = uint16_t(30 + i);
		pi.flags = PF_EDITOR_VISIBLE;
		pinfo.push_back(pi);
	}
	std::vector<int> L;
	for (auto v : c["L"].ints()) L.push_back((int) v);
	ContentIds ids;
	// (the state before is read from a twin of the loaded model: reading it converts cached data)
	std::string s0 = strips ? projectShape(twin, byName(twin, "S"), ids) : projectShape(nif, shape, ids);
	nif.SetShapePartitions(shape, pinfo, L);
	// (strips, every other case: no rebuild; the model is saved as it is and read back)
	bool savedInstead = strips && (k / 2) % 2 == 0;
	NifFile back;
	if (savedInstead) {
		if (loadFromString(back, saveToString(nif, false, false)) != 0) return;
	}
	else
		nif.UpdateSkinPartitions(shape);
	NifFile& now = savedInstead ? back : nif;
	shape = byName(now, "S");
	if (!shape) return;
	NiVector<BSDismemberSkinInstance::PartitionInfo> got;
	std::vector<int> tp;
	now.GetShapePartitions(shape, got, tp);
	std::string t0 = projectShape(now, shape, ids);
	JObj ev;
	ev.add("e", "partassign").add("case", (long long) k).add("ver", ver).add("strips", strips).add("savedInstead", savedInstead).raw("L", intsJson(L)).add("boneLimit", boneLimitOf(nif.GetHeader().GetVersion()));
	ev.raw("s", s0).raw("t", t0);
	out += ev.done() + "\n";
	// "the same holds after vertex deletion": a vertex that only some triangles use goes; the labels are read back again.
	// (Only when every triangle is in a partition: unassigned ones are C10's DeletePartitions business.)
	if (nt >= 2 && std::find(tp.begin(), tp.end(), -1) == tp.end() && !tp.empty()) {
		std::vector<uint16_t> idx = {uint16_t(1)}; // the first rim vertex of the fan: used by the first triangle only; every other
												   // triangle survives, renumbered, and the partitions' vertex maps shrink in front
		ContentIds id2;
		std::string s1 = projectShape(now, shape, id2);
		bool all = now.DeleteVertsForShape(shape, idx);
		NiVector<BSDismemberSkinInstance::PartitionInfo> got2;
		std::vector<int> tp2;
		if (!all) now.GetShapePartitions(shape, got2, tp2);
		std::string t1 = projectShape(now, shape, id2);
		JObj e2, cj;
		cj.add("case", (long long) k).add("ver", ver).add("after", "SetShapePartitions");
		e2.add("e", "delverts").raw("case", cj.done()).raw("I", u16json(idx)).add("allDeleted", all).add("checkParts", true).add("boneLimit", boneLimitOf(now.GetHeader().GetVersion()));
		e2.raw("s", s1).raw("t", t1).add("reloaded", false);
		out += e2.done() + "\n";
	}
}

int cmdCases(int argc, char** argv) {
	if (argc < 3) return 2;
	auto lines = readLines(argv[1]);
	std::string outPath = argv[2];
	{ Out trunc(outPath); }
	size_t chunk = 100, nchunks = (lines.size() + chunk - 1) / chunk;
	size_t crashes = runForkedCases(
		nchunks, outPath, 300,
		[&](size_t ci, std::string& out) {
			for (size_t k = ci * chunk; k < std::min(lines.size(), (ci + 1) * chunk); k++) {
				JV rec = jparse(lines[k]);
				const JV& c = rec["c"];
				if (c["k"].s == "segments") {
					// sub-index shapes are what Fallout 4 and Fallout 76 models hold
					segmentCase(c, k, "FO4", out);
					if (k % 3 == 0) segmentCase(c, k, "FO76", out);
				}
				else if (c["k"].s == "partassign")
				{
					for (const char* ver : {"FO3", "SK", "SSE"}) partAssignCase(c, k, ver, false, out);
					partAssignCase(c, k, k % 2 ? "FO3" : "SK", true, out);
				}
			}
		},
		[&](size_t ci, const std::string& why, FILE* out) { fprintf(out, "{\"e\":\"crash\",\"chunk\":%zu,\"why\":%s}\n", ci, J::str(why).s.c_str()); });
	printf("{\"cases\":%zu,\"crashes\":%zu}\n", lines.size(), crashes);
	return 0;
}

// ---------------------------------------------------------------- C10
void partitionEvent(NifFile& nif, NiShape* shape, const char* op, const std::string& caseJson, std::string& out) {
	ContentIds ids;
	JObj ev;
	ev.add("e", "partition").add("op", op).raw("case", caseJson).add("boneLimit", boneLimitOf(nif.GetHeader().GetVersion()));
	ev.raw("t", projectShape(nif, shape, ids));
	out += ev.done() + "\n";
}

void partitionOps(NifFile& nif, const std::string& shapeName, const std::string& caseJson, std::mt19937_64& rng, std::string& out) {
	NiShape* shape = byName(nif, shapeName);
	if (!shape) return;
	nif.UpdateSkinPartitions(shape);
	partitionEvent(nif, shape, "UpdateSkinPartitions", caseJson, out);
	// reassign triangles: labels over the existing partitions + one more, incl. unassigned (-1)
	NiVector<BSDismemberSkinInstance::PartitionInfo> pinfo;
	std::vector<int> tp;
	if (nif.GetShapePartitions(shape, pinfo, tp) && !tp.empty()) {
		partitionEvent(nif, shape, "GetShapePartitions", caseJson, out);
		int np = (int) pinfo.size();
		for (auto& l : tp) {
			int r = int(rng() % 10);
			if (r == 0) l = -1;
			else if (r < 4) l = int(rng() % (np + 1));
		}
		nif.SetShapePartitions(shape, pinfo, tp);
		nif.UpdateSkinPartitions(shape);
		partitionEvent(nif, shape, "SetShapePartitions+Update", caseJson, out);
		nif.RemoveEmptyPartitions(shape);
		nif.UpdateSkinPartitions(shape);
		partitionEvent(nif, shape, "RemoveEmptyPartitions+Update", caseJson, out);
		NiVector<BSDismemberSkinInstance::PartitionInfo> pinfo2;
		std::vector<int> tp2;
		if (nif.GetShapePartitions(shape, pinfo2, tp2) && pinfo2.size() >= 2) {
			// DeletePartitions leaves the triangles of a deleted partition unassigned: move them to partition 0 first
			int last = int(pinfo2.size()) - 1;
			for (auto& l : tp2)
				if (l == last) l = 0;
			nif.SetShapePartitions(shape, pinfo2, tp2);
			std::vector<uint32_t> del = {uint32_t(last)};
			nif.DeletePartitions(shape, del);
			nif.UpdateSkinPartitions(shape);
			partitionEvent(nif, shape, "DeletePartitions+Update", caseJson, out);
		}
	}
	// a reassignment that is saved without a rebuild (the writer regenerates what it needs), and one that is cleaned up
	// before the rebuild
	for (int way = 0; way < 2; way++) {
		NifFile copy(nif);
		auto cs = byName(copy, shapeName);
		if (!cs) break;
		NiVector<BSDismemberSkinInstance::PartitionInfo> pi6;
		std::vector<int> tp6;
		if (!copy.GetShapePartitions(cs, pi6, tp6) || pi6.size() < 2 || std::find(tp6.begin(), tp6.end(), -1) != tp6.end()) break;
		// every third triangle moves to the next partition
		for (size_t i = 0; i < tp6.size(); i += 3) tp6[i] = (tp6[i] + 1) % int(pi6.size());
		copy.SetShapePartitions(cs, pi6, tp6);
		if (way == 0) {
			if (copy.GetHeader().GetVersion().IsSSE() && !dynamic_cast<BSTriShape*>(cs)) continue; // (mixed layouts, see below)
			NifFile re;
			if (loadFromString(re, saveToString(copy, false, false)) != 0) continue;
			if (auto rs = byName(re, shapeName)) partitionEvent(re, rs, "SetShapePartitions+SaveReload(no rebuild)", caseJson, out);
		}
		else {
			copy.RemoveEmptyPartitions(cs);
			copy.UpdateSkinPartitions(cs);
			partitionEvent(copy, cs, "SetShapePartitions+RemoveEmptyPartitions+Update", caseJson, out);
		}
	}
	// deleting the first partition (the remaining ones move down): its triangles go to the second one first
	{
		NifFile copy(nif);
		if (auto cs = byName(copy, shapeName)) {
			NiVector<BSDismemberSkinInstance::PartitionInfo> pi4;
			std::vector<int> tp4;
			if (copy.GetShapePartitions(cs, pi4, tp4) && pi4.size() >= 2 && std::find(tp4.begin(), tp4.end(), -1) == tp4.end()) {
				for (auto& l : tp4)
					if (l == 0) l = 1;
				copy.SetShapePartitions(cs, pi4, tp4);
				std::vector<uint32_t> del = {0u};
				copy.DeletePartitions(cs, del);
				copy.UpdateSkinPartitions(cs);
				partitionEvent(copy, cs, "DeleteFirstPartition+Update", caseJson, out);
			}
		}
	}
	// an emptied first partition removed by RemoveEmptyPartitions
	{
		NifFile copy(nif);
		if (auto cs = byName(copy, shapeName)) {
			NiVector<BSDismemberSkinInstance::PartitionInfo> pi5;
			std::vector<int> tp5;
			if (copy.GetShapePartitions(cs, pi5, tp5) && pi5.size() >= 2 && std::find(tp5.begin(), tp5.end(), -1) == tp5.end()) {
				for (auto& l : tp5)
					if (l == 0) l = int(pi5.size()) - 1;
				copy.SetShapePartitions(cs, pi5, tp5);
				copy.RemoveEmptyPartitions(cs);
				copy.UpdateSkinPartitions(cs);
				partitionEvent(copy, cs, "RemoveEmptyFirstPartition+Update", caseJson, out);
			}
		}
	}
	// ids beyond the given partition list and no unassigned triangle: every id up to the highest one becomes a partition
	{
		NifFile copy(nif);
		if (auto cs = byName(copy, shapeName)) {
			NiVector<BSDismemberSkinInstance::PartitionInfo> pi3;
			std::vector<int> tp3;
			if (copy.GetShapePartitions(cs, pi3, tp3) && !tp3.empty() && std::find(tp3.begin(), tp3.end(), -1) == tp3.end()) {
				int np3 = (int) pi3.size();
				for (size_t i = 0; i < tp3.size(); i++) tp3[i] = int(i % size_t(np3 + 2));
				copy.SetShapePartitions(cs, pi3, tp3);
				copy.UpdateSkinPartitions(cs);
				partitionEvent(copy, cs, "SetShapePartitions(new ids)+Update", caseJson, out);
			}
		}
	}
	// save + reload (not for a legacy shape under a Skyrim SE header: that file mixes two partition layouts)
	if (!(nif.GetHeader().GetVersion().IsSSE() && !dynamic_cast<BSTriShape*>(shape))) {
		NifFile copy(nif);
		NifFile re;
		if (loadFromString(re, saveToString(copy, true, true)) == 0)
			if (auto rs = byName(re, shapeName)) partitionEvent(re, rs, "SaveReload", caseJson, out);
	}
	// faces the existing partitions do not know (a new face, and a face listed twice), then a rebuild
	{
		NifFile copy(nif);
		if (auto cs = byName(copy, shapeName)) {
			std::vector<Triangle> tris;
			cs->GetTriangles(tris);
			uint16_t nv = cs->GetNumVertices();
			if (nv >= 3 && !tris.empty() && tris.size() < 60000) {
				tris.emplace_back(uint16_t(0), uint16_t(nv / 2), uint16_t(nv - 1));
				tris.push_back(tris[0]);
				cs->SetTriangles(tris);
				copy.UpdateSkinPartitions(cs);
				partitionEvent(copy, cs, "AddFaces+Update", caseJson, out);
			}
		}
	}
	nif.SetDefaultPartition(shape);
	nif.UpdateSkinPartitions(shape);
	partitionEvent(nif, shape, "SetDefaultPartition+Update", caseJson, out);
}

int cmdC10(int argc, char** argv) {
	if (argc < 3) return 2;
	std::string outPath = argv[1];
	size_t nrandom = strtoul(argv[2], nullptr, 10);
	uint64_t seed = seedFromEnv();
	auto files = sampleFiles();
	struct Case {
		std::string file, ver;
		size_t nbones, nv;
	};
	std::vector<Case> cases;
	for (auto& f : files) cases.push_back({f, "", 0, 0});
	const char* vers[] = {"OB", "FO3", "SK", "SSE"};
	size_t boneCounts[] = {1, 2, 5, 17, 18, 19, 30, 79, 80, 81, 100};
	for (auto v : vers)
		for (auto nb : boneCounts) cases.push_back({"", v, nb, 0});
	// many influences per vertex (the builder keeps the four strongest): 5..9 per vertex, around and above the bone limits
	for (auto v : vers)
		for (size_t inf = 5; inf <= 9; inf++) cases.push_back({"", v, 40, 1000 + inf});
	for (size_t nb : {79, 80, 81, 100}) cases.push_back({"", "SSE-legacy", nb, 0});
	// a plain skin instance (files of other tools; SetShapePartitions turns it into a dismember instance), and vertices that no
	// bone has a weight for (unpainted vertices of a work in progress)
	for (auto v : {"FO3", "SK", "SSE"}) cases.push_back({"", v, 5, 2000});
	for (auto v : vers) cases.push_back({"", v, 6, 3000});
	for (size_t i = 0; i < nrandom; i++) cases.push_back({"", vers[i % 4], size_t(2 + (i * 7) % 40), size_t(20 + (i * 13) % 90)});
	{ Out trunc(outPath); }
	size_t crashes = runForkedCases(
		cases.size(), outPath, 200,
		[&](size_t k, std::string& out) {
			std::mt19937_64 rng(seed * 7477 + k);
			JObj cj;
			if (!cases[k].file.empty()) {
				NifFile nif;
				if (nif.Load(samplePath(cases[k].file)) != 0) return;
				for (auto& n : nif.GetShapeNames()) {
					NiShape* s = byName(nif, n);
					if (!s || !s->IsSkinned()) continue;
					if (!nif.GetHeader().GetBlock<NiSkinInstance>(s->SkinInstanceRef())) continue;
					JObj c;
					c.add("file", cases[k].file).add("shape", n);
					partitionOps(nif, n, c.done(), rng, out);
				}
				return;
			}
			// ribbon: vertex i is weighted to bones spread over the bone count so that long triangle runs need many bones
			size_t nb = cases[k].nbones;
			bool plainInstance = cases[k].nv == 2000, unweighted = cases[k].nv == 3000;
			size_t influences = cases[k].nv >= 1000 && cases[k].nv < 2000 ? cases[k].nv - 1000 : 0;
			if (plainInstance || unweighted) cases[k].nv = 0;
			size_t nv = influences ? 30 : (cases[k].nv ? cases[k].nv : std::max<size_t>(8, nb * 2 + 2));
			std::vector<Triangle> tris;
			for (size_t i = 0; i + 2 < nv; i++) tris.emplace_back(uint16_t(i), uint16_t(i + 1), uint16_t(i + 2));
			NifFile nif;
			bool legacyInSSE = cases[k].ver == "SSE-legacy";
			nif.Create(versionByName(legacyInSSE ? "SK" : cases[k].ver));
			NiShape* shape = buildShape(nif, "S", nv, tris, true);
			if (!shape) return;
			// a legacy NiTriShape in a file whose header says Skyrim SE (the format allows it): the bone limit is the file's
			if (legacyInSSE) nif.GetHeader().SetVersion(NiVersion::getSSE());
			bool random = cases[k].nv != 0 && !influences;
			skinShape(nif, shape, nb, [&](uint16_t v) {
				std::vector<std::pair<int, float>> w;
				if (unweighted && v % 5 == 3) return w;
				if (influences) {
					// vertex v: bones v, v+1, .. (mod nb) with strictly decreasing weights summing to one
					float total = 0;
					for (size_t i = 0; i < influences; i++) total += float(influences - i);
					for (size_t i = 0; i < influences; i++) w.emplace_back(int((v + i) % nb), float(influences - i) / total);
				}
				else if (!random) {
					int b = int((size_t(v) * nb) / nv);
					w.emplace_back(b, 0.75f);
					if (b + 1 < (int) nb) w.emplace_back(b + 1, 0.25f);
					else w[0].second = 1.0f;
				}
				else {
					std::mt19937_64 r2(seed * 31 + k * 1000 + v);
					int cnt = 1 + int(r2() % 4);
					float rem = 1.0f;
					std::set<int> used;
					for (int i = 0; i < cnt; i++) {
						int b = int(r2() % nb);
						if (!used.insert(b).second) continue;
						float ww = (i == cnt - 1) ? rem : rem * 0.5f;
						w.emplace_back(b, ww);
						rem -= ww;
					}
					if (rem > 0 && !w.empty()) w[0].second += rem;
				}
				return w;
			});
			JObj c;
			c.add("ver", cases[k].ver).add("bones", (long long) nb).add("nv", (long long) nv).add("random", random).add("influences", (long long) influences);
			c.add("plainInstance", plainInstance).add("unweighted", unweighted);
			if (plainInstance) {
				auto& hdr = nif.GetHeader();
				auto si = hdr.GetBlock<NiSkinInstance>(shape->SkinInstanceRef());
				if (!si) return;
				auto plain = std::make_unique<NiSkinInstance>();
				*plain = *static_cast<NiSkinInstance*>(si);
				hdr.ReplaceBlock(nif.GetBlockID(si), std::move(plain));
				NifFile re;
				if (loadFromString(re, saveToString(nif, false, false)) != 0) return;
				NiShape* rs = byName(re, "S");
				if (!rs) return;
				// first call on the plain instance: it becomes a dismember instance with one entry per partition
				NiVector<BSDismemberSkinInstance::PartitionInfo> pinfo;
				for (int i = 0; i < 3; i++) {
					BSDismemberSkinInstance::PartitionInfo pi;
					pi.partID = uint16_t(32 + i);
					pi.flags = PF_EDITOR_VISIBLE;
					pinfo.push_back(pi);
				}
				std::vector<int> tp(tris.size());
				for (size_t i = 0; i < tp.size(); i++) tp[i] = int(i * 3 / tp.size());
				re.SetShapePartitions(rs, pinfo, tp);
				re.UpdateSkinPartitions(rs);
				partitionEvent(re, rs, "SetShapePartitions(plain instance)+Update", c.done(), out);
				partitionOps(re, "S", c.done(), rng, out);
				return;
			}
			partitionOps(nif, "S", c.done(), rng, out);
		},
		[&](size_t k, const std::string& why, FILE* out) {
			fprintf(out, "{\"e\":\"crash\",\"case\":{\"file\":%s,\"ver\":%s,\"bones\":%zu},\"why\":%s}\n", J::str(cases[k].file).s.c_str(), J::str(cases[k].ver).s.c_str(),
					cases[k].nbones, J::str(why).s.c_str());
		});
	printf("{\"cases\":%zu,\"crashes\":%zu}\n", cases.size(), crashes);
	return 0;
}
// ---------------------------------------------------------------- the partition API as a machine (PartApi.tla)
// c10-api <cases.ndjson> <out.ndjson>: every exported call history on a skinned fan, in FO3, SK and SSE
int cmdApi(int argc, char** argv) {
	if (argc < 3) return 2;
	auto lines = readLines(argv[1]);
	std::string outPath = argv[2];
	{ Out trunc(outPath); }
	const size_t NT = 4;
	size_t chunk = 40, nchunks = (lines.size() + chunk - 1) / chunk;
	size_t crashes = runForkedCases(
		nchunks, outPath, 300,
		[&](size_t ci, std::string& out) {
			for (size_t k = ci * chunk; k < std::min(lines.size(), (ci + 1) * chunk); k++) {
				JV rec = jparse(lines[k]);
				for (const char* ver : {"FO3", "SK", "SSE"}) {
					NifFile made;
					made.Create(versionByName(ver));
					NiShape* shape = buildShape(made, "S", NT + 2, fan(NT), true);
					if (!shape) continue;
					skinShape(made, shape, 2, [](uint16_t v) {
						std::vector<std::pair<int, float>> w;
						w.emplace_back(int(v % 2), 1.0f);
						return w;
					});
					// the history runs on the model as a tool gets it: loaded from a file
					std::unique_ptr<NifFile> nif(new NifFile());
					if (loadFromString(*nif, saveToString(made, false, false)) != 0) continue;
					JArr ops, obs;
					auto identities = [&](NiShape* sh) {
						std::vector<Vector3> verts;
						std::vector<Triangle> tris;
						nif->GetVertsForShape(sh, verts);
						sh->GetTriangles(tris);
						std::vector<long long> ids;
						for (auto& t : tris) {
							long long a[3] = {-1, -1, -1};
							uint16_t p[3] = {t.p1, t.p2, t.p3};
							for (int q = 0; q < 3; q++)
								if (p[q] < verts.size()) a[q] = llround(verts[p[q]].x);
							std::sort(a, a + 3);
							ids.push_back(a[1]); // (0, k, k+1): the middle one
						}
						return ids;
					};
					bool stop = false;
					for (auto& op : rec["ops"].a) {
						if (stop) break;
						NiShape* sh = byName(*nif, "S");
						if (!sh) { stop = true; break; }
						const std::string kd = op["k"].s;
						JObj jo, ob;
						jo.add("k", kd);
						std::vector<int> tpGot, bodies;
						bool got = false;
						if (kd == "set") {
							NiVector<BSDismemberSkinInstance::PartitionInfo> pinfo;
							std::vector<int> tp;
							nif->GetShapePartitions(sh, pinfo, tp);
							auto ids = identities(sh);
							long long np = (long long) pinfo.size(), top = -1;
							for (auto id : ids) top = std::max(top, id);
							const std::string p = op["p"].s;
							tp.assign(ids.size(), 0);
							for (size_t j = 0; j < ids.size(); j++) {
								if (p == "alt") tp[j] = int(ids[j] % 2);
								else if (p == "newid") tp[j] = ids[j] == top ? int(np) : 0;
								else if (p == "last") tp[j] = np >= 2 ? int(np - 1) : 0;
								else if (p == "each") tp[j] = int(ids[j] - 1);
							}
							// one info per label in use, the new ones with body part ids of their own
							int maxl = -1;
							for (auto l : tp) maxl = std::max(maxl, l);
							while ((int) pinfo.size() <= maxl) {
								BSDismemberSkinInstance::PartitionInfo pi;
								pi.partID = uint16_t(60 + pinfo.size());
								pi.flags = PF_EDITOR_VISIBLE;
								pinfo.push_back(pi);
							}
							JArr pids;
							for (auto& pi : pinfo) pids.add((long long) pi.partID);
							jo.add("p", p).add("np", np).raw("pids", pids.done());
							if (!ids.empty()) nif->SetShapePartitions(sh, pinfo, tp);
						}
						else if (kd == "update") nif->UpdateSkinPartitions(sh);
						else if (kd == "default") nif->SetDefaultPartition(sh);
						else if (kd == "clean") nif->RemoveEmptyPartitions(sh);
						else if (kd == "delv") {
							// the vertex whose original number is v
							std::vector<Vector3> verts;
							nif->GetVertsForShape(sh, verts);
							long long v = (long long) op["v"].n;
							jo.add("v", v);
							std::vector<uint16_t> idx;
							for (size_t q = 0; q < verts.size(); q++)
								if (llround(verts[q].x) == v) idx.push_back(uint16_t(q));
							if (!idx.empty()) nif->DeleteVertsForShape(sh, idx);
						}
						else if (kd == "reload") {
							std::unique_ptr<NifFile> re(new NifFile());
							if (loadFromString(*re, saveToString(*nif, false, false)) != 0) { stop = true; break; }
							nif = std::move(re);
						}
						else if (kd == "get") {
							NiVector<BSDismemberSkinInstance::PartitionInfo> pinfo;
							got = nif->GetShapePartitions(sh, pinfo, tpGot);
							for (auto l : tpGot) bodies.push_back(l >= 0 && size_t(l) < pinfo.size() ? int(pinfo[size_t(l)].partID) : -1);
						}
						sh = byName(*nif, "S");
						ops.raw(jo.done());
						if (!sh) {
							// the shape is gone (every triangle deleted): nothing more to observe
							ob.raw("ids", "[]").raw("tp", "[]").raw("bodies", "[]").add("got", false).raw("t", "{}");
							obs.raw(ob.done());
							stop = true;
							break;
						}
						ContentIds ids;
						{
							JArr ia;
							for (auto id : identities(sh)) ia.add(id);
							JObj ob2;
							ob2.raw("ids", ia.done()).raw("tp", intsJson(tpGot)).raw("bodies", intsJson(bodies)).add("got", got).raw("t", projectShape(*nif, sh, ids));
							obs.raw(ob2.done());
						}
					}
					JObj ev;
					ev.add("e", "partapi").add("case", (long long) k).add("ver", ver).add("nt", (long long) NT).add("boneLimit", boneLimitOf(nif->GetHeader().GetVersion()));
					ev.raw("ops", ops.done()).raw("obs", obs.done());
					out += ev.done() + "\n";
				}
			}
		},
		[&](size_t ci, const std::string& why, FILE* out) { fprintf(out, "{\"e\":\"crash\",\"chunk\":%zu,\"why\":%s}\n", ci, J::str(why).s.c_str()); });
	printf("{\"cases\":%zu,\"crashes\":%zu}\n", lines.size(), crashes);
	return 0;
}
Reg r0("c10-api", cmdApi);
Reg r1("c17-cases", cmdCases);
Reg r2("c10-run", cmdC10);
} // namespace
