// C02: saving is repeatable and never alters the in-memory model.
//   c02-resave <out.ndjson> <synthStride> <editSteps>
//       sample and synthesised (loaded) models, fresh and after a seeded edit sequence; per save option:
//       battery, save, battery, save, battery, save, battery - logged with the three abstract files.
#include "battery.hpp"
#include "hooks.hpp"
#include "synth.hpp"

using namespace nifly;
using namespace vh;

namespace {
// mode: 0 = raw (optimize and sortBlocks off), 1 = default (both on), 2 = optimize on, sortBlocks off
void measure(NifFile& nif, int mode, const std::string& caseJson, const char* variant, std::string& out) {
	const bool def = mode == 1, optim = mode != 0, sort = mode == 1;
	ContentIds ids, qids;
	// answers that name things (not block numbers) must survive even the first, sorting and pruning, default save
	long long namesBefore = batteryNames(nif, qids);
	// a twin of the model that is never saved answers the query battery too: as long as a save does not have to move or
	// prune blocks (sorting off, nothing pruned), the saved model must answer like it
	std::string qTwin;
	if (!def) {
		for (auto s : nif.GetShapes()) s->UpdateBounds();
		NifFile twin(nif);
		battery(twin, qids);
		qTwin = battery(twin, qids);
	}
	// the first optimizing save may prune (and the default one sorts: block indices move): the query batteries are measured
	// from there, but what it wrote is the first output of this model: the next save has to write the same
	uint32_t blocksBeforeFirst = nif.GetHeader().GetNumBlocks();
	std::string bFirst = optim ? saveToString(nif, optim, sort) : std::string();
	bool prunedFirst = nif.GetHeader().GetNumBlocks() != blocksBeforeFirst;
	long long namesAfterFirst = batteryNames(nif, qids);
	if (def)
		for (auto s : nif.GetShapes()) s->UpdateBounds();
	JObj ev;
	ev.add("e", "resave").raw("case", caseJson).add("opt", def ? "default" : (mode == 2 ? "optimize-only" : "raw")).add("variant", variant);
	size_t stripParts = 0;
	for (uint32_t b = 0; b < nif.GetHeader().GetNumBlocks(); b++)
		if (auto sp = nif.GetHeader().GetBlock<NiSkinPartition>(b))
			for (auto& p : sp->partitions) stripParts += p.numStrips ? 1 : 0;
	ev.add("stripPartitions", stripParts > 0);
	// a save before any query: the history save, queries, save must give the same file twice
	std::string b0 = saveToString(nif, optim, sort);
	bool twinComparable = !def && !prunedFirst;
	ev.raw("S0", fileAbstract(b0, &nif, ids));
	// (a first optimizing save that prunes blocks still writes their strings: the two-round convergence that C01 spells out)
	ev.add("hasFirst", optim && !prunedFirst);
	if (optim) ev.raw("Sfirst", fileAbstract(bFirst, &nif, ids)).add("eqFirstRaw", bFirst == b0);
	// some accessors convert cached data lazily (e.g. GetShapePartitions turns partition strips into triangles, which
	// changes what IsSSECompatible answers): let that settle first, so that a difference can only come from saving
	battery(nif, qids);
	ev.raw("q0", battery(nif, qids));
	ev.add("twinComparable", twinComparable);
	if (twinComparable) ev.raw("qTwin", qTwin);
	std::string b1 = saveToString(nif, optim, sort);
	ev.raw("S1", fileAbstract(b1, &nif, ids));
	ev.raw("q1", battery(nif, qids));
	std::string b2 = saveToString(nif, optim, sort);
	ev.raw("S2", fileAbstract(b2, &nif, ids));
	ev.raw("q2", battery(nif, qids));
	std::string b3 = saveToString(nif, optim, sort);
	ev.raw("S3", fileAbstract(b3, &nif, ids));
	ev.raw("q3", battery(nif, qids));
	ev.add("namesBefore", namesBefore).add("namesAfterFirst", namesAfterFirst).add("namesEnd", batteryNames(nif, qids));
	ev.add("eq01raw", b0 == b1).add("eq12raw", b1 == b2).add("eq23raw", b2 == b3);
	out += ev.done() + "\n";
}

int cmdResave(int argc, char** argv) {
	if (argc < 4) return 2;
	std::string outPath = argv[1];
	size_t stride = strtoul(argv[2], nullptr, 10), editSteps = strtoul(argv[3], nullptr, 10);
	auto files = sampleFiles();
	auto types = allBlockTypes();
	uint64_t seed = seedFromEnv();
	struct Case {
		std::string file, type, ver;
		int mode;
	};
	std::vector<Case> cases;
	for (auto& f : files) cases.push_back({f, "", "", 0});
	const char* vers[] = {"OB", "FO3", "SK", "SSE", "FO4", "FO76", "SF"};
	for (size_t ti = 0; ti < types.size(); ti++)
		for (int vi = 0; vi < 7; vi++)
			if (stride <= 1 || (ti * 7 + vi) % stride == seed % stride) cases.push_back({"", types[ti], vers[vi], int((ti + vi + seed) % 3)});
	// models built through the API with what editing leaves behind: a node whose only child was deleted (an emptied child
	// slot) next to a shape, an emptied extra-data slot in front of used ones
	for (int vi = 0; vi < 6; vi++) cases.push_back({"", "built:emptied-slots", vers[vi], 0});
	{ Out trunc(outPath); }
	auto caseOf = [&](size_t k) {
		JObj c;
		if (!cases[k].file.empty()) c.add("file", cases[k].file);
		else c.add("type", cases[k].type).add("ver", cases[k].ver).add("mode", cases[k].mode);
		c.add("seed", (long long) seed);
		return c.done();
	};
	size_t crashes = runForkedCases(
		cases.size(), outPath, 120,
		[&](size_t k, std::string& out) {
			std::string bytes;
			if (cases[k].type.compare(0, 6, "built:") == 0) {
				for (int def = 0; def < 2; def++) {
					NifFile nif;
					nif.Create(versionByName(cases[k].ver));
					MatTransform t;
					auto a = nif.AddNode("A", t);
					nif.AddNode("B", t, a);
					std::vector<Vector3> v = {{0, 0, 0}, {1, 0, 0}, {0, 1, 0}};
					std::vector<Triangle> tr = {Triangle(0, 1, 2)};
					std::vector<Vector2> uv = {{0, 0}, {1, 0}, {0, 1}};
					nif.CreateShapeFromData("S2", &v, &tr, &uv);
					for (int e = 0; e < 3; e++) {
						auto ed = std::make_unique<NiStringExtraData>();
						ed->name.get() = "x" + std::to_string(e);
						ed->stringData.get() = "v";
						nif.AssignExtraData(nif.GetRootNode(), std::move(ed));
					}
					// match groups given through the API (legacy triangle data)
					if (auto td = dynamic_cast<NiTriShapeData*>(nif.GetShapes()[0]->GetGeomData())) {
						MatchGroup mg;
						mg.count = 2;
						mg.matches = {0, 1};
						td->SetMatchGroups({mg});
					}
					nif.DeleteNode("B");
					auto& hd = nif.GetHeader();
					hd.DeleteBlock(nif.GetRootNode()->extraDataRefs.GetBlockRef(0));
					markPhase(3);
					measure(nif, def, caseOf(k), "built", out);
				}
				return;
			}
			if (!cases[k].file.empty()) bytes = readFile(samplePath(cases[k].file));
			else {
				NifFile gen;
				if (!synthFile(gen, cases[k].type, cases[k].ver, cases[k].mode, seed)) return;
				markPhase(1);
				bytes = saveToString(gen, false, false);
			}
			markPhase(2);
			{
				// a model the query battery cannot be run on at all gives C02 nothing to observe (a crash here is a discard)
				NifFile q;
				if (loadFromString(q, bytes) != 0) return;
				ContentIds qids;
				battery(q, qids);
			}
			markPhase(3);
			for (int def = 0; def < 3; def++) {
				NifFile nif;
				if (loadFromString(nif, bytes) != 0) return;
				measure(nif, def, caseOf(k), "fresh", out);
			}
			if (!cases[k].file.empty()) {
				// the same model with every mapped skin-partition triangle rotated once (same triangle, same winding): files
				// from other exporters do not keep the corner order this library writes
				for (int def = 0; def < 2; def++) {
					NifFile nif;
					if (loadFromString(nif, bytes) != 0) return;
					size_t rotated = 0;
					for (uint32_t b = 0; b < nif.GetHeader().GetNumBlocks(); b++)
						if (auto sp = nif.GetHeader().GetBlock<NiSkinPartition>(b))
							for (auto& p : sp->partitions)
								for (auto& t : p.triangles) {
									t = Triangle(t.p2, t.p3, t.p1);
									rotated++;
								}
					if (!rotated) break;
					measure(nif, def, caseOf(k), "rotated-partition-triangles", out);
				}
				// positions and UVs given through the API with values that the storage formats (half floats, bytes) cannot hold
				// exactly: saving must convert what it writes, not what the model holds
				for (int def = 0; def < 2; def++) {
					NifFile nif;
					if (loadFromString(nif, bytes) != 0) return;
					bool any = false;
					for (auto sh : nif.GetShapes()) {
						uint16_t nvv = sh->GetNumVertices();
						if (nvv == 0 || nvv > 20000) continue;
						std::vector<Vector3> vv;
						if (!nif.GetVertsForShape(sh, vv) || vv.size() != nvv) continue;
						for (size_t q = 0; q < vv.size(); q++) vv[q] = Vector3(vv[q].x + 0.0137f, vv[q].y - 0.0213f, vv[q].z + 0.0319f);
						nif.SetVertsForShape(sh, vv);
						std::vector<Vector2> uu;
						if (nif.GetUvsForShape(sh, uu) && uu.size() == nvv) {
							for (size_t q = 0; q < uu.size(); q++) uu[q] = Vector2(0.1f * float(q % 10) + 0.0131f, 0.3f + 0.0077f * float(q % 7));
							nif.SetUvsForShape(sh, uu);
						}
						any = true;
					}
					if (!any) break;
					measure(nif, def, caseOf(k), "inexact-values", out);
				}
				// a few vertices of every shape are deleted (the skin data and partitions follow), and a node is added below
				// the root (stored last: the model is no longer in the order a sorting save would give it)
				for (int def = 0; def < 3; def++) {
					NifFile nif;
					if (loadFromString(nif, bytes) != 0) return;
					bool any = false;
					for (auto sh : nif.GetShapes()) {
						uint16_t nvv = sh->GetNumVertices();
						if (nvv < 8 || nvv > 20000) continue;
						std::vector<uint16_t> idx = {uint16_t(1), uint16_t(nvv / 2), uint16_t(nvv - 2)};
						nif.DeleteVertsForShape(sh, idx);
						any = true;
					}
					MatTransform t;
					nif.AddNode("AddedLast", t);
					if (!any && def == 1) break;
					measure(nif, def, caseOf(k), "vertices-deleted-node-added", out);
				}
				// the vertex format changes through the API (colours taken away or given) with no partition rebuild afterwards
				for (int def = 0; def < 2; def++) {
					NifFile nif;
					if (loadFromString(nif, bytes) != 0) return;
					bool any = false;
					for (auto sh : nif.GetShapes()) {
						uint16_t nvv = sh->GetNumVertices();
						if (nvv == 0 || nvv > 20000) continue;
						if (sh->HasVertexColors()) sh->SetVertexColors(false);
						else {
							std::vector<Color4> cc(nvv, Color4(0.5f, 0.25f, 1.0f, 1.0f));
							nif.SetColorsForShape(sh, cc);
						}
						any = true;
					}
					if (!any) break;
					measure(nif, def, caseOf(k), "vertex-format-changed", out);
				}
				// the neighbouring stream version of the same game (Starfield: 172 and 173)
				{
					size_t eol = bytes.find('\n');
					if (eol != std::string::npos && bytes.size() > eol + 18) {
						uint32_t stream = 0;
						memcpy(&stream, &bytes[eol + 14], 4);
						if (stream == 172) {
							std::string nb = bytes;
							uint32_t other = 173;
							memcpy(&nb[eol + 14], &other, 4);
							for (int def = 0; def < 2; def++) {
								NifFile nif;
								if (loadFromString(nif, nb) != 0) break;
								measure(nif, def, caseOf(k), "stream-173", out);
							}
							// ... and the model as loaded, told through the API to be written as the other version
							for (int def = 0; def < 2; def++) {
								NifFile nif;
								if (loadFromString(nif, bytes) != 0) break;
								nif.GetHeader().SetVersion(NiVersion(NiFileVersion::V20_2_0_7, 12, 173));
								measure(nif, def, caseOf(k), "version-set-to-stream-173", out);
							}
						}
					}
				}
				// the skin of the first skinned shape gets a skeleton root of its own (a node added last, so that a sorting save
				// moves it)
				for (int def = 0; def < 2; def++) {
					NifFile nif;
					if (loadFromString(nif, bytes) != 0) return;
					bool bound = false;
					for (auto sh : nif.GetShapes()) {
						auto& hd = nif.GetHeader();
						auto si = hd.GetBlock<NiSkinInstance>(sh->SkinInstanceRef());
						auto bi = hd.GetBlock<BSSkinInstance>(sh->SkinInstanceRef());
						if (!si && !bi) continue;
						MatTransform t;
						auto sr = nif.AddNode("SkeletonRootNode", t);
						(si ? si->targetRef.index : bi->targetRef.index) = nif.GetBlockID(sr);
						bound = true;
						break;
					}
					if (!bound) break;
					measure(nif, def, caseOf(k), "skeleton-root-node", out);
				}
				// one block type relabelled so that the library holds its blocks as opaque ones
				HeaderInfo h = parseHeader(bytes);
				if (h.ok && h.hasSizes && !h.types.empty()) {
					std::string ub = bytes;
					const std::string& t = h.types[(seed + k) % h.types.size()];
					std::string needle;
					uint32_t n = (uint32_t) t.size();
					needle.append((const char*) &n, 4);
					needle += t;
					size_t p = ub.find(needle);
					if (p != std::string::npos && p < h.hdrLen) {
						ub[p + 4] = (ub[p + 4] == 'Q') ? 'Z' : 'Q';
						for (int def = 0; def < 2; def++) {
							NifFile nif;
							if (loadFromString(nif, ub) != 0 || !nif.HasUnknown()) break;
							measure(nif, def, caseOf(k), "one-type-unknown", out);
						}
					}
				}
			}
			if (editSteps && !cases[k].file.empty()) {
				for (int def = 0; def < 3; def++) {
					NifFile nif;
					if (loadFromString(nif, bytes) != 0) return;
					std::mt19937_64 r(seed * 131 + k);
					for (size_t s = 0; s < editSteps; s++) {
						std::string act = randomGraphOp(nif, r);
						applyGraphOp(nif, jparse(act));
					}
					nif.LinkGeomData();
					measure(nif, def, caseOf(k), "edited", out);
				}
			}
		},
		[&](size_t k, const std::string& why, FILE* out) {
			int ph = lastCrashPhase();
			fprintf(out, "{\"e\":\"%s\",\"case\":%s,\"why\":%s,\"phase\":%d}\n", (ph < 2 || (ph == 2 && cases[k].file.empty())) ? "discard" : "crash", caseOf(k).c_str(), J::str(why).s.c_str(), ph);
		},
		4096);
	printf("{\"cases\":%zu,\"crashes\":%zu}\n", cases.size(), crashes);
	return 0;
}
// c02-one <type> <ver> <mode> | c02-one <sample file>: one case in-process (for replays and debugging)
int cmdOne(int argc, char** argv) {
	if (argc < 2) return 2;
	std::string bytes;
	uint64_t seed = seedFromEnv();
	if (argc >= 4) {
		NifFile gen;
		if (!synthFile(gen, argv[1], argv[2], atoi(argv[3]), seed)) return 3;
		bytes = saveToString(gen, false, false);
	}
	else
		bytes = readFile(samplePath(argv[1]));
	for (int def = 0; def < 2; def++) {
		NifFile nif;
		if (loadFromString(nif, bytes) != 0) return 4;
		std::string out;
		measure(nif, def, "{}", "fresh", out);
		printf("%zu bytes of record\n", out.size());
	}
	return 0;
}
Reg r1("c02-resave", cmdResave);
Reg r2("c02-one", cmdOne);
} // namespace
