// C14: cloning a shape yields a self-contained copy and leaves the source untouched.
//   c14-run <out.ndjson> <maxShapesPerFile>    every shape of every sample x destination in {same model, fresh model of the
//                                              same version, another loaded model} x 1..2 repetitions
#include "battery.hpp"
#include "hooks.hpp"
#include "mesh.hpp"

using namespace nifly;
using namespace vh;

namespace {
// BFS over owning references from a block: [type, masked content id, refs as local BFS numbers (-1 empty, -2 outside/dangling)]
struct Sub {
	std::string json;
	size_t dangling = 0;
	std::vector<uint32_t> blocks;
};
Sub subgraph(NifFile& nif, uint32_t root, ContentIds& ids) {
	auto& hdr = nif.GetHeader();
	Sub r;
	// the sub-graph unfolded into a tree: a block that is referenced twice appears twice (a clone may hold a copy per
	// reference); local numbers are positions in this breadth-first unfolding
	std::map<uint32_t, int> local; // first position of a block (for weak pointers)
	std::vector<uint32_t> order;
	std::vector<std::vector<long long>> kidsOf;
	if (root == NIF_NPOS || !hdr.GetBlock<NiObject>(root)) return r;
	order.push_back(root);
	local[root] = 0;
	for (size_t i = 0; i < order.size() && i < 4000; i++) {
		NiObject* b = hdr.GetBlock<NiObject>(order[i]);
		std::vector<uint32_t> idx;
		b->GetChildIndices(idx);
		std::vector<long long> kids;
		for (auto c : idx) {
			if (c == NIF_NPOS) { kids.push_back(-1); continue; }
			if (!hdr.GetBlock<NiObject>(c)) { r.dangling++; kids.push_back(-2); continue; }
			if (order.size() >= 4000) { kids.push_back(-3); continue; }
			if (!local.count(c)) local[c] = (int) order.size();
			kids.push_back((long long) order.size());
			order.push_back(c);
		}
		kidsOf.push_back(kids);
	}
	JArr a;
	for (size_t oi = 0; oi < order.size(); oi++) {
		uint32_t id = order[oi];
		NiObject* b = hdr.GetBlock<NiObject>(id);
		PutInfo pi = putBlock(b, hdr);
		JArr refs;
		if (oi < kidsOf.size())
			for (auto c : kidsOf[oi]) refs.add(c);
		// weak pointers: inside the sub-graph by local number, outside by the name of the node they designate
		std::set<NiPtr*> ps;
		b->GetPtrs(ps);
		std::vector<std::string> pl;
		for (auto p : ps) {
			if (p->index == NIF_NPOS) continue; // (emptied pointer entries may be dropped by a clone)
			else if (local.count(p->index)) pl.push_back("#" + std::to_string(local[p->index]));
			else if (hdr.GetBlock<NiNode>(p->index) && hdr.GetBlock<NiNode>(p->index) == nif.GetRootNode()) pl.push_back("root");
			else if (auto n = hdr.GetBlock<NiNode>(p->index)) pl.push_back("n:" + n->name.get());
			else if (hdr.GetBlock<NiObject>(p->index)) pl.push_back(std::string("t:") + hdr.GetBlock<NiObject>(p->index)->GetBlockName());
			else pl.push_back("dangling");
		}
		std::sort(pl.begin(), pl.end());
		JArr jp;
		for (auto& x : pl) jp.add(x);
		JObj o;
		o.add("type", b->GetBlockName()).add("cid", ids.of(pi.masked())).raw("refs", refs.done()).raw("ptrs", jp.done());
		a.add(o);
	}
	r.json = a.done();
	r.blocks = order;
	return r;
}

long long modelId(NifFile& nif, ContentIds& ids) {
	UidMap um;
	ProjOpts po;
	po.uids = false;
	po.cids = true;
	po.strs = true;
	ContentIds c2;
	return ids.of(project(nif, um, po, &c2));
}

NiShape* byName(NifFile& nif, const std::string& n) {
	for (auto s : nif.GetShapes())
		if (s->name.get() == n) return s;
	return nullptr;
}

int cmdRun(int argc, char** argv) {
	if (argc < 3) return 2;
	std::string outPath = argv[1];
	size_t maxShapes = strtoul(argv[2], nullptr, 10);
	auto files = sampleFiles();
	{ Out trunc(outPath); }
	const char* dests[] = {"same", "fresh", "other", "partial-skeleton", "skeleton-root-node", "model-space-flag", "empty-bone-slot", "parent-stored-later",
						   "strips-shape", "special-bones", "shared-child"};
	const size_t ND = 11;
	size_t crashes = runForkedCases(
		files.size() * ND, outPath, 300,
		[&](size_t i, std::string& out) {
			const std::string& fn = files[i / ND];
			const char* dest = dests[i % ND];
			NifFile probe;
			if (probe.Load(samplePath(fn)) != 0) return;
			auto names = probe.GetShapeNames();
			size_t count = 0;
			for (auto& shapeName0 : names) {
				if (count++ >= maxShapes) break;
				std::string shapeName = shapeName0;
				NifFile src;
				if (src.Load(samplePath(fn)) != 0) return;
				NifFile other;
				NifFile* dst = &src;
				std::string destName = dest;
				if (destName == "fresh") {
					other.Create(src.GetHeader().GetVersion());
					dst = &other;
				}
				else if (destName == "partial-skeleton") {
					// a nested skeleton in the source (second bone below the first) and a destination that already holds
					// the ancestor bone only
					NiShape* sh = byName(src, shapeName);
					std::vector<std::string> bones;
					if (!sh || src.GetShapeBoneList(sh, bones) < 2) continue;
					auto b0 = src.FindBlockByName<NiNode>(bones[0]);
					auto b1 = src.FindBlockByName<NiNode>(bones[1]);
					if (!b0 || !b1 || b0 == b1) continue;
					src.SetParentNode(b1, b0);
					other.Create(src.GetHeader().GetVersion());
					MatTransform t;
					other.AddNode(bones[0], t);
					dst = &other;
				}
				else if (destName == "skeleton-root-node") {
					// the skin's skeleton root is a node of its own below the scene root, the destination is a fresh model
					NiShape* sh = byName(src, shapeName);
					if (!sh || !sh->IsSkinned()) continue;
					MatTransform t;
					auto sr = src.AddNode("SkeletonRootNode", t);
					auto& sh_hdr = src.GetHeader();
					if (auto si = sh_hdr.GetBlock<NiSkinInstance>(sh->SkinInstanceRef())) si->targetRef.index = src.GetBlockID(sr);
					else if (auto bi = sh_hdr.GetBlock<BSSkinInstance>(sh->SkinInstanceRef())) bi->targetRef.index = src.GetBlockID(sr);
					else
						continue;
					other.Create(src.GetHeader().GetVersion());
					dst = &other;
				}
				else if (destName == "empty-bone-slot") {
					// the first bone link of the skin is empty (what an editor leaves behind when a bone node goes); fresh destination
					NiShape* sh = byName(src, shapeName);
					if (!sh) continue;
					auto cont = src.GetHeader().GetBlock(sh->SkinInstanceRef());
					if (!cont || cont->boneRefs.GetSize() < 2) continue;
					cont->boneRefs.SetBlockRef(0, NIF_NPOS);
					other.Create(src.GetHeader().GetVersion());
					dst = (i / ND) % 2 ? &other : &src;
				}
				else if (destName == "parent-stored-later") {
					// the shape hangs below a node that is stored behind it (an unsorted, edited model); cloned within the model
					NiShape* sh = byName(src, shapeName);
					if (!sh) continue;
					MatTransform t;
					auto grp = src.AddNode("GroupNode", t);
					src.SetParentNode(sh, grp);
					dst = &src;
				}
				else if (destName == "strips-shape") {
					// the model gets an NiTriStrips shape (no sample has one); it is the shape that is cloned, into a fresh model
					// and (every other file) within the model
					auto& v = src.GetHeader().GetVersion();
					if (count != 1 || v.Stream() > 83 || !src.GetRootNode()) continue;
					addStripsShape(src);
					NifFile re;
					if (loadFromString(re, saveToString(src, false, false)) != 0) continue;
					src.CopyFrom(re);
					shapeName = "Strips";
					other.Create(src.GetHeader().GetVersion());
					dst = (i / ND) % 2 ? &src : &other;
				}
				else if (destName == "special-bones") {
					// two bones of the skin are nodes of derived kinds (a value node, a billboard node); fresh destination
					NiShape* sh = byName(src, shapeName);
					std::vector<std::string> bones;
					if (!sh || src.GetShapeBoneList(sh, bones) < 2) continue;
					auto& sh_hdr = src.GetHeader();
					for (int bi = 0; bi < 2; bi++) {
						auto node = src.FindBlockByName<NiNode>(bones[size_t(bi)]);
						if (!node || node == src.GetRootNode() || std::string(node->GetBlockName()) != "NiNode") continue;
						uint32_t id = src.GetBlockID(node);
						if (bi == 0) {
							auto nb = std::make_unique<BSValueNode>();
							*static_cast<NiNode*>(nb.get()) = *node;
							nb->value = 7;
							sh_hdr.ReplaceBlock(id, std::move(nb));
						}
						else {
							auto nb = std::make_unique<NiBillboardNode>();
							*static_cast<NiNode*>(nb.get()) = *node;
							nb->billboardMode = BillboardMode(3);
							sh_hdr.ReplaceBlock(id, std::move(nb));
						}
					}
					NifFile re;
					if (loadFromString(re, saveToString(src, false, false)) != 0) continue;
					src.CopyFrom(re);
					other.Create(src.GetHeader().GetVersion());
					dst = &other;
				}
				else if (destName == "shared-child") {
					// one block referenced twice below the shape (the same extra data listed twice); a fresh model, or the same one
					NiShape* sh = byName(src, shapeName);
					if (!sh) continue;
					auto ed = std::make_unique<NiStringExtraData>();
					ed->name.get() = "shared";
					ed->stringData.get() = "listed twice";
					uint32_t id = src.GetHeader().AddBlock(std::move(ed));
					sh->extraDataRefs.AddBlockRef(id);
					sh->extraDataRefs.AddBlockRef(id);
					other.Create(src.GetHeader().GetVersion());
					dst = (i / ND) % 2 ? &src : &other;
				}
				else if (destName == "model-space-flag") {
					// Fallout 4 and later: a shader flagged for model-space normals on a shape that carries normals (in the
					// Skyrim versions the library drops the normals of such a clone by design)
					auto& v = src.GetHeader().GetVersion();
					if (!(v.IsFO4() || v.IsFO76() || v.Stream() >= 130)) continue;
					NiShape* sh = byName(src, shapeName);
					auto shader = sh ? src.GetShader(sh) : nullptr;
					auto bssp = dynamic_cast<BSShaderProperty*>(shader);
					if (!bssp || !sh->HasNormals()) continue;
					bssp->shaderFlags1 |= (1u << 12);
					other.Create(src.GetHeader().GetVersion());
					dst = &other;
				}
				else if (destName == "other") {
					// another loaded model of the same version family: the next sample with the same version
					bool found = false;
					for (size_t k = 1; k < files.size() && !found; k++) {
						const std::string& cand = files[(i / ND + k) % files.size()];
						NifFile tmp;
						if (tmp.Load(samplePath(cand)) == 0 && versionName(tmp.GetHeader().GetVersion()) == versionName(src.GetHeader().GetVersion())
							&& tmp.GetHeader().GetVersion().Stream() == src.GetHeader().GetVersion().Stream()) {
							other.Load(samplePath(cand));
							found = true;
						}
					}
					if (!found) continue;
					dst = &other;
				}
				for (int rep = 0; rep < 2; rep++) {
					NiShape* srcShape = byName(src, shapeName);
					if (!srcShape) break;
					ContentIds ids;
					long long srcBefore = dst == &src ? 0 : modelId(src, ids);
					Sub sg = subgraph(src, src.GetBlockID(srcShape), ids);
					std::vector<std::string> srcBones;
					src.GetShapeBoneList(srcShape, srcBones);
					ContentIds gid;
					std::string srcGeom = projectShape(src, srcShape, gid);
					std::string cloneName = shapeName + "_clone" + std::to_string(rep);
					std::set<std::string> nodesBefore;
					for (auto n : dst->GetNodes()) nodesBefore.insert(n->name.get());
					NiShape* clone = dst->CloneShape(srcShape, cloneName, dst == &src ? nullptr : &src);
					JObj ev;
					ev.add("e", "clone").add("file", fn).add("shape", shapeName).add("dest", dest).add("rep", rep).add("cloned", clone != nullptr);
					if (clone) {
						Sub cg = subgraph(*dst, dst->GetBlockID(clone), ids);
						ev.raw("srcGraph", sg.json).raw("cloneGraph", cg.json).add("dangling", (long long) cg.dangling);
						// blocks of the clone's sub-graph that the source shape's sub-graph also uses (same model only)
						long long shared = 0;
						if (dst == &src)
							for (auto b : cg.blocks)
								if (std::find(sg.blocks.begin(), sg.blocks.end(), b) != sg.blocks.end()) shared++;
						ev.add("sharedWithSource", shared);
						std::vector<std::string> cb;
						dst->GetShapeBoneList(clone, cb);
						JArr jsb, jcb;
						for (auto& b : srcBones) jsb.add(b);
						for (auto& b : cb) jcb.add(b);
						bool exist = true;
						for (auto& b : cb)
							if (!dst->FindBlockByName<NiNode>(b)) exist = false;
						ev.raw("srcBones", jsb.done()).raw("cloneBones", jcb.done()).add("bonesExist", exist);
						// the bone nodes that the clone brought along are nodes of the same kind as the source's
						{
							JArr sk, ck;
							for (auto& b : cb) {
								if (nodesBefore.count(b)) continue;
								auto sn = src.FindBlockByName<NiNode>(b);
								auto dn = dst->FindBlockByName<NiNode>(b);
								sk.add(sn ? sn->GetBlockName() : "(none)");
								ck.add(dn ? dn->GetBlockName() : "(none)");
							}
							ev.raw("srcBoneKinds", sk.done()).raw("cloneBoneKinds", ck.done());
						}
						// where the clone hangs: below the source's parent within one model, below the root of another model
						{
							auto sp = src.GetParentNode(srcShape);
							// (the parent by the nodes' own child lists, not by a helper of the library)
							auto parentOf = [](NifFile& f, NiObject* o) -> std::string {
								uint32_t id = f.GetBlockID(o);
								for (auto n : f.GetNodes())
									for (auto& r : n->childRefs)
										if (r.index == id) return n->name.get();
								return "(none)";
							};
							(void) sp;
							std::string want = dst == &src ? parentOf(src, srcShape) : (dst->GetRootNode() ? dst->GetRootNode()->name.get() : std::string("(none)"));
							ev.add("cloneParent", parentOf(*dst, clone)).add("wantParent", want);
						}
						long long srcAfter = dst == &src ? 0 : modelId(src, ids);
						ev.add("srcBefore", srcBefore).add("srcAfter", srcAfter);
						// identical geometry through the accessors
						JV a = jparse(srcGeom), b = jparse(projectShape(*dst, clone, gid));
						auto sameGeom = [](const JV& x, const JV& y) {
							return toJson(x["pcid"]) == toJson(y["pcid"]) && toJson(x["tris"]) == toJson(y["tris"]) && toJson(x["uvq"]) == toJson(y["uvq"])
								   && toJson(x["textures"]) == toJson(y["textures"]) && toJson(x["weights"]) == toJson(y["weights"])
								   && toJson(x["acid"]) == toJson(y["acid"]) && toJson(x["lens"]) == toJson(y["lens"]);
						};
						bool geomEqual = sameGeom(a, b);
						ev.add("geomEqual", geomEqual);
						NifFile copy(*dst);
						NifFile re;
						bool ok = loadFromString(re, saveToString(copy, true, true)) == 0 && byName(re, cloneName) != nullptr;
						ev.add("reloadHasClone", ok);
						// ... and the reloaded clone is the clone: compared with the destination reloaded before (normal form)
						bool reloadSame = true;
						std::string reloadedPositions;
						if (ok) {
							JV rb = jparse(projectShape(re, byName(re, cloneName), gid));
							reloadedPositions = toJson(rb["pcid"]);
							NifFile copy2(*dst), re2;
							if (loadFromString(re2, saveToString(copy2, true, true)) == 0 && byName(re2, cloneName))
								reloadSame = toJson(rb["tris"]) == toJson(b["tris"]) && toJson(rb["lens"]) == toJson(b["lens"]) && toJson(rb["pcid"]) == toJson(b["pcid"]);
						}
						ev.add("reloadSame", reloadSame);
						// editing the clone edits the clone only, and the edit is what the destination saves
						{
							std::vector<Vector3> verts;
							bool srcSame = true, editReloads = true;
							long long srcAfterEdit = srcBefore;
							if (dst->GetVertsForShape(clone, verts) && !verts.empty()) {
								for (auto& p : verts) p.x += 1.0f + std::fabs(p.x) * 0.125f; // (more than a half-float step)
								dst->SetVertsForShape(clone, verts);
								// ... and through the shape's own interface: the clone gives up its normals; the destination itself is saved
								clone->SetNormals(false);
								saveToString(*dst, true, true);
								clone = byName(*dst, cloneName);
								NiShape* srcNow = byName(src, shapeName);
								if (!clone || !srcNow) return;
								JV sa = jparse(projectShape(src, srcNow, gid));
								srcSame = toJson(sa["pcid"]) == toJson(a["pcid"]) && toJson(sa["lens"]) == toJson(a["lens"]) && toJson(sa["acid"]) == toJson(a["acid"]);
								if (dst != &src) srcAfterEdit = modelId(src, ids);
								NifFile copy3(*dst), re3;
								if (ok && loadFromString(re3, saveToString(copy3, true, true)) == 0 && byName(re3, cloneName)) {
									// (the stored positions may be rounded ones: what is asked is that they are the moved ones)
									JV rc = jparse(projectShape(re3, byName(re3, cloneName), gid));
									editReloads = toJson(rc["pcid"]) != reloadedPositions;
								}
								else if (ok)
									editReloads = false;
							}
							ev.add("sourceKeptItsVertices", srcSame).add("srcAfterEdit", srcAfterEdit).add("editReloads", editReloads);
						}
					}
					out += ev.done() + "\n";
				}
			}
		},
		[&](size_t i, const std::string& why, FILE* out) {
			fprintf(out, "{\"e\":\"crash\",\"file\":%s,\"dest\":\"%s\",\"why\":%s}\n", J::str(files[i / ND]).s.c_str(), dests[i % ND], J::str(why).s.c_str());
		});
	printf("{\"files\":%zu,\"crashes\":%zu}\n", files.size(), crashes);
	return 0;
}
Reg r1("c14-run", cmdRun);
} // namespace
