// Shared helpers of the nifly conformance harness (nvh).
#pragma once
#include <cstdint>
#include <cstdio>
#include <cstdlib>
#include <cstring>
#include <fstream>
#include <functional>
#include <iostream>
#include <map>
#include <random>
#include <sstream>
#include <string>
#include <unistd.h>
#include <vector>

namespace vh {

// ---------------------------------------------------------------- JSON writer (values are built as strings)
struct J {
	std::string s;
	J() {}
	explicit J(std::string raw) : s(std::move(raw)) {}
	static J num(long long v) { return J(std::to_string(v)); }
	static J boolean(bool b) { return J(b ? "true" : "false"); }
	static J str(const std::string& v) {
		std::string o = "\"";
		for (unsigned char c : v) {
			switch (c) {
				case '"': o += "\\\""; break;
				case '\\': o += "\\\\"; break;
				case '\n': o += "\\n"; break;
				case '\r': o += "\\r"; break;
				case '\t': o += "\\t"; break;
				default:
					if (c < 0x20 || c >= 0x7f) {
						char b[8];
						snprintf(b, sizeof b, "\\u%04x", c);
						o += b;
					}
					else
						o += char(c);
			}
		}
		o += "\"";
		return J(o);
	}
};

struct JObj {
	std::string s = "{";
	bool first = true;
	JObj& raw(const char* k, const std::string& v) {
		if (!first) s += ",";
		first = false;
		s += "\"";
		s += k;
		s += "\":";
		s += v;
		return *this;
	}
	JObj& add(const char* k, const J& v) { return raw(k, v.s); }
	JObj& add(const char* k, long long v) { return raw(k, std::to_string(v)); }
	JObj& add(const char* k, int v) { return raw(k, std::to_string(v)); }
	JObj& add(const char* k, unsigned v) { return raw(k, std::to_string(v)); }
	JObj& add(const char* k, size_t v) { return raw(k, std::to_string(v)); }
	JObj& add(const char* k, bool v) { return raw(k, v ? "true" : "false"); }
	JObj& add(const char* k, const std::string& v) { return raw(k, J::str(v).s); }
	JObj& add(const char* k, const char* v) { return raw(k, J::str(v).s); }
	std::string done() const { return s + "}"; }
	operator J() const { return J(done()); }
};

struct JArr {
	std::string s = "[";
	bool first = true;
	JArr& raw(const std::string& v) {
		if (!first) s += ",";
		first = false;
		s += v;
		return *this;
	}
	JArr& add(const J& v) { return raw(v.s); }
	JArr& add(long long v) { return raw(std::to_string(v)); }
	JArr& add(int v) { return raw(std::to_string(v)); }
	JArr& add(unsigned v) { return raw(std::to_string(v)); }
	JArr& add(size_t v) { return raw(std::to_string(v)); }
	JArr& add(const std::string& v) { return raw(J::str(v).s); }
	std::string done() const { return s + "]"; }
	operator J() const { return J(done()); }
};

template<typename T>
inline J jints(const std::vector<T>& v) {
	JArr a;
	for (auto& x : v) a.add((long long) x);
	return a;
}

// ---------------------------------------------------------------- tiny JSON reader (enough for TLC-exported cases)
struct JV {
	enum K { Null, Bool, Num, Str, Arr, Obj } k = Null;
	bool b = false;
	long long n = 0;
	std::string s;
	std::vector<JV> a;
	std::vector<std::pair<std::string, JV>> o;
	const JV& operator[](const char* key) const {
		static JV nul;
		for (auto& kv : o)
			if (kv.first == key) return kv.second;
		return nul;
	}
	const JV& operator[](size_t i) const { return a[i]; }
	bool has(const char* key) const {
		for (auto& kv : o)
			if (kv.first == key) return true;
		return false;
	}
	size_t size() const { return k == Arr ? a.size() : o.size(); }
	std::vector<long long> ints() const {
		std::vector<long long> r;
		for (auto& x : a) r.push_back(x.n);
		return r;
	}
};

struct JParser {
	const char* p;
	const char* e;
	explicit JParser(const std::string& s) : p(s.data()), e(s.data() + s.size()) {}
	void ws() {
		while (p < e && (*p == ' ' || *p == '\n' || *p == '\t' || *p == '\r')) p++;
	}
	JV parse() {
		ws();
		JV v;
		if (p >= e) return v;
		if (*p == '{') {
			v.k = JV::Obj;
			p++;
			ws();
			if (*p == '}') { p++; return v; }
			while (p < e) {
				ws();
				JV key = parse();
				ws();
				if (*p == ':') p++;
				JV val = parse();
				v.o.emplace_back(key.s, std::move(val));
				ws();
				if (*p == ',') { p++; continue; }
				if (*p == '}') { p++; break; }
				break;
			}
		}
		else if (*p == '[') {
			v.k = JV::Arr;
			p++;
			ws();
			if (*p == ']') { p++; return v; }
			while (p < e) {
				v.a.push_back(parse());
				ws();
				if (*p == ',') { p++; continue; }
				if (*p == ']') { p++; break; }
				break;
			}
		}
		else if (*p == '"') {
			v.k = JV::Str;
			p++;
			while (p < e && *p != '"') {
				if (*p == '\\' && p + 1 < e) {
					p++;
					switch (*p) {
						case 'n': v.s += '\n'; break;
						case 'r': v.s += '\r'; break;
						case 't': v.s += '\t'; break;
						case 'u': {
							unsigned c = (unsigned) strtoul(std::string(p + 1, p + 5).c_str(), nullptr, 16);
							v.s += char(c & 0xff);
							p += 4;
							break;
						}
						default: v.s += *p;
					}
					p++;
				}
				else
					v.s += *p++;
			}
			p++;
		}
		else if (*p == 't') { v.k = JV::Bool; v.b = true; p += 4; }
		else if (*p == 'f') { v.k = JV::Bool; v.b = false; p += 5; }
		else if (*p == 'n') { p += 4; }
		else {
			v.k = JV::Num;
			char* end = nullptr;
			v.n = strtoll(p, &end, 10);
			if (end && (*end == '.' || *end == 'e' || *end == 'E')) {
				double d = strtod(p, &end);
				v.n = (long long) d;
			}
			p = end;
		}
		return v;
	}
};

// re-serialise a parsed value (object keys keep their order)
inline std::string toJson(const JV& v) {
	switch (v.k) {
		case JV::Null: return "null";
		case JV::Bool: return v.b ? "true" : "false";
		case JV::Num: return std::to_string(v.n);
		case JV::Str: return J::str(v.s).s;
		case JV::Arr: {
			JArr a;
			for (auto& x : v.a) a.raw(toJson(x));
			return a.done();
		}
		case JV::Obj: {
			JObj o;
			for (auto& p : v.o) o.raw(p.first.c_str(), toJson(p.second));
			return o.done();
		}
	}
	return "null";
}

inline JV jparse(const std::string& s) {
	JParser jp(s);
	return jp.parse();
}

// ---------------------------------------------------------------- content ids (first-seen numbering of a 128-bit hash)
struct Hash128 {
	uint64_t a, b;
	bool operator<(const Hash128& o) const { return a != o.a ? a < o.a : b < o.b; }
};

inline Hash128 hashBytes(const void* data, size_t n) {
	const unsigned char* p = (const unsigned char*) data;
	uint64_t h1 = 1469598103934665603ULL, h2 = 0x9E3779B97F4A7C15ULL ^ n;
	for (size_t i = 0; i < n; i++) {
		h1 = (h1 ^ p[i]) * 1099511628211ULL;
		h2 = (h2 + p[i] + 0x632BE59BD9B4E019ULL) * 0xD6E8FEB86659FD93ULL;
		h2 ^= h2 >> 32;
	}
	return {h1, h2};
}

struct ContentIds {
	std::map<Hash128, int> ids;
	int of(const void* data, size_t n) {
		auto h = hashBytes(data, n);
		auto it = ids.find(h);
		if (it != ids.end()) return it->second;
		int id = (int) ids.size() + 1;
		ids[h] = id;
		return id;
	}
	int of(const std::string& s) { return of(s.data(), s.size()); }
	void reset() { ids.clear(); }
};

// ---------------------------------------------------------------- misc
inline uint64_t seedFromEnv() {
	const char* s = getenv("VERIF_SEED");
	return s && *s ? strtoull(s, nullptr, 10) : 1;
}

inline std::string repoDir() {
	const char* s = getenv("NIFLY_REPO");
	return s && *s ? s : "/repo";
}

struct Out {
	FILE* f = stdout;
	explicit Out(const std::string& path) {
		if (!path.empty() && path != "-") f = fopen(path.c_str(), "w");
		if (!f) { perror(path.c_str()); exit(2); }
	}
	~Out() { if (f && f != stdout) fclose(f); }
	void line(const std::string& s) {
		fputs(s.c_str(), f);
		fputc('\n', f);
	}
	void flush() { fflush(f); }
};

// size of a file; and cutting a file back to a size (what a crashed child had appended, possibly ending in a partial line)
inline long fileSize(const std::string& p) {
	FILE* f = fopen(p.c_str(), "rb");
	if (!f) return 0;
	fseek(f, 0, SEEK_END);
	long n = ftell(f);
	fclose(f);
	return n;
}
inline void cutBack(const std::string& p, long size) {
	if (fileSize(p) > size && truncate(p.c_str(), size) != 0) perror("truncate");
}

inline std::string readFile(const std::string& p) {
	std::ifstream f(p, std::ios::binary);
	std::stringstream ss;
	ss << f.rdbuf();
	return ss.str();
}

inline std::vector<std::string> readLines(const std::string& p) {
	std::vector<std::string> r;
	std::istream* in = &std::cin;
	std::ifstream f;
	if (p != "-") { f.open(p); in = &f; }
	std::string l;
	while (std::getline(*in, l))
		if (!l.empty()) r.push_back(l);
	return r;
}

// Runs fn in a forked child with a watchdog; returns 0 if the child exited 0, otherwise a description in `why`.
int forkRun(const std::function<int()>& fn, int seconds, std::string& why, size_t memLimitMB = 0);

// Runs cases 0..n-1 sequentially inside forked children (appending to outPath). If a child dies, the case that was
// running is reported through onCrash(i, why, out) and the run resumes with the next case. Returns the crash count.
size_t runForkedCases(size_t n, const std::string& outPath, int secondsPerCase,
					  const std::function<void(size_t, std::string&)>& fn,
					  const std::function<void(size_t, const std::string&, FILE*)>& onCrash, size_t memLimitMB = 0);

// inside a forked case: record how far the case got; after a crash the parent can ask in which phase the case died
void markPhase(int phase);
int lastCrashPhase();

using Cmd = int (*)(int, char**);
struct Registry {
	static std::map<std::string, Cmd>& cmds() {
		static std::map<std::string, Cmd> m;
		return m;
	}
};
struct Reg {
	Reg(const char* name, Cmd c) { Registry::cmds()[name] = c; }
};
} // namespace vh
