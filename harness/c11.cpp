// C11: a copied model is equal to and fully independent of its source.
//   c11-run <histories.ndjson> <out.ndjson> <filesCsv>   behaviours of NifCopy.tla executed on real models (run under ASan)
#include "battery.hpp"
#include "hooks.hpp"

using namespace nifly;
using namespace vh;

namespace {
// projection of one side: every query answer + the projected block graph with payload content ids
long long proj(NifFile* nif, ContentIds& ids) {
	if (!nif) return -1;
	// (one id table for the whole run: an id stands for one content, so a changed answer or payload gives another id)
	std::string b = battery(*nif, ids, true);
	UidMap um;
	ProjOpts po;
	po.uids = false;
	po.cids = true;
	po.strs = true;
	std::string g = project(*nif, um, po, &ids);
	return ids.of(b + "|" + g);
}

// shapes whose cached geometry pointer is not the data block of their own model
int foreignLinks(NifFile* nif) {
	if (!nif) return 0;
	int bad = 0;
	auto& hdr = nif->GetHeader();
	for (auto s : nif->GetShapes()) {
		auto geom = dynamic_cast<NiGeometry*>(s);
		if (!geom) continue;
		NiGeometryData* own = hdr.GetBlock<NiGeometryData>(geom->DataRef());
		if (geom->GetGeomData() != own) bad++;
	}
	return bad;
}

void edit(NifFile& nif, const std::string& e, size_t salt) {
	auto shapes = nif.GetShapes();
	if (e == "RenameNode") {
		auto nodes = nif.GetNodes();
		if (!nodes.empty()) nodes[salt % nodes.size()]->name.get() += "_r";
	}
	else if (e == "MoveVerts") {
		if (!shapes.empty()) {
			auto s = shapes[salt % shapes.size()];
			std::vector<Vector3> v;
			nif.GetVertsForShape(s, v);
			for (auto& p : v) p.x += 1.0f;
			nif.SetVertsForShape(s, v);
			s->UpdateBounds();
		}
	}
	else if (e == "SetTriangles") {
		if (!shapes.empty()) {
			auto s = shapes[salt % shapes.size()];
			std::vector<Triangle> t;
			s->GetTriangles(t);
			if (!t.empty()) t.pop_back();
			s->SetTriangles(t); // through the shape object: reaches the geometry data through the cached pointer
		}
	}
	else if (e == "DeleteShape") {
		if (!shapes.empty()) nif.DeleteShape(shapes[salt % shapes.size()]);
	}
	else if (e == "AddNode") {
		MatTransform t;
		nif.AddNode("added" + std::to_string(salt), t);
	}
	else if (e == "DeleteBlock") {
		auto& hdr = nif.GetHeader();
		if (hdr.GetNumBlocks() > 1) hdr.DeleteBlock(hdr.GetNumBlocks() - 1);
	}
	else if (e == "SelectLod") {
		// a second mesh slot is selected on every Starfield shape that has one, and left selected: a view setting of this model
		for (auto sh : shapes)
			if (auto geo = dynamic_cast<BSGeometry*>(sh))
				if (geo->MeshCount() >= 2) geo->SelectMesh(1);
	}
	else if (e == "SetTexture") {
		if (!shapes.empty()) {
			std::string t = "textures\\c11\\edited.dds";
			nif.SetTextureSlot(shapes[salt % shapes.size()], t, 0);
		}
	}
}

// Starfield shapes keep their geometry in external mesh files; a synthetic one is attached to every mesh slot so that the
// geometry reached through BSGeometry shapes exists in the models under test
template<typename T>
void putLE(std::string& s, T v) {
	s.append((const char*) &v, sizeof v);
}
std::string meshFile(uint16_t nVerts, uint16_t nTris, int16_t base) {
	std::string s;
	putLE<uint32_t>(s, 1);
	putLE<uint32_t>(s, uint32_t(nTris) * 3);
	for (uint16_t t = 0; t < nTris; t++) {
		putLE<uint16_t>(s, uint16_t(t % nVerts));
		putLE<uint16_t>(s, uint16_t((t + 1) % nVerts));
		putLE<uint16_t>(s, uint16_t((t + 2) % nVerts));
	}
	putLE<float>(s, 1.0f);
	putLE<uint32_t>(s, 0);
	putLE<uint32_t>(s, nVerts);
	for (uint16_t v = 0; v < nVerts; v++) {
		putLE<int16_t>(s, int16_t(base + v));
		putLE<int16_t>(s, int16_t(base + 2 * v));
		putLE<int16_t>(s, int16_t(base + 3 * v));
	}
	for (int k = 0; k < 9; k++) putLE<uint32_t>(s, 0); // uv1, uv2, colours, normals, tangents, weights, lods, meshlets, cull data
	return s;
}
// (the slot list is a protected member; no sample has a shape with more than one slot)
struct MeshSlots : BSGeometry {
	static std::vector<BSGeometryMesh> BSGeometry::* ptr() { return &MeshSlots::meshes; }
};
void attachMeshes(NifFile& nif) {
	int n = 0;
	for (auto sh : nif.GetShapes())
		if (auto geo = dynamic_cast<BSGeometry*>(sh)) {
			// a second level of detail: a second slot like the first
			auto& slots = geo->*MeshSlots::ptr();
			if (slots.size() == 1) slots.push_back(slots[0]);
		}
	for (auto sh : nif.GetShapes())
		if (auto geo = dynamic_cast<BSGeometry*>(sh))
			for (uint8_t m = 0; m < geo->MeshCount(); m++) {
				std::istringstream in(meshFile(uint16_t(5 + n), uint16_t(4 + n), int16_t(1000 + 100 * n)), std::ios::binary);
				nif.LoadExternalShapeData(geo, in, m);
				n++;
			}
}

int cmdRun(int argc, char** argv) {
	if (argc < 4) return 2;
	auto hists = readLines(argv[1]);
	std::string outPath = argv[2];
	std::vector<std::string> files;
	{
		std::stringstream ss(argv[3]);
		std::string f;
		while (std::getline(ss, f, ',')) files.push_back(f);
	}
	{ Out trunc(outPath); }
	size_t n = hists.size() * files.size();
	size_t crashes = runForkedCases(
		n, outPath, 120,
		[&](size_t i, std::string& out) {
			const std::string& fn = files[i % files.size()];
			JV h = jparse(hists[i / files.size()]);
			std::unique_ptr<NifFile> A(new NifFile()), B;
			if (A->Load(samplePath(fn)) != 0) return;
			attachMeshes(*A);
			ContentIds ids;
			// some accessors convert cached data lazily (partition strips to triangles): let that settle before observing
			proj(A.get(), ids);
			size_t step = 0;
			for (auto& act : h.a) {
				long long bA = proj(A.get(), ids), bB = proj(B.get(), ids);
				const std::string op = act["op"].s;
				bool savedEqual = true;
				NifFile* side = nullptr;
				if (act.has("side")) side = act["side"].s == "A" ? A.get() : B.get();
				if (op == "Copy") {
					if (act["kind"].s == "construct") B.reset(new NifFile(*A));
					else {
						B.reset(new NifFile());
						B->Create(NiVersion::getSSE()); // assignment over an existing, valid model
						*B = *A;
					}
					// both save to the same bytes (on copies made with the constructor, so that A and B stay unsaved)
					NifFile ca(*A), cb(*B);
					savedEqual = saveToString(ca, false, false) == saveToString(cb, false, false);
					NifFile da(*A), db(*B);
					savedEqual = savedEqual && saveToString(da, true, true) == saveToString(db, true, true);
					// ... and to the bytes of a model that was never copied: the file loaded again, taken through the same steps
					{
						NifFile ref;
						if (ref.Load(samplePath(fn)) == 0) {
							attachMeshes(ref);
							size_t st = 0;
							for (auto& pa : h.a) {
								if (pa["op"].s == "Copy") break;
								if (pa["op"].s == "Edit") edit(ref, pa["edit"].s, i + st);
								else if (pa["op"].s == "Save") saveToString(ref, pa["opt"].s == "default", pa["opt"].s == "default");
								st++;
							}
							proj(&ref, ids); // the same queries the source has answered (some convert cached data lazily)
							NifFile cc(*B);
							savedEqual = savedEqual && saveToString(cc, false, false) == saveToString(ref, false, false);
						}
					}
				}
				else if (!side) {
					// the side was destroyed earlier: nothing to do
				}
				else if (op == "Edit") edit(*side, act["edit"].s, i + step);
				else if (op == "Save") saveToString(*side, act["opt"].s == "default", act["opt"].s == "default");
				else if (op == "Destroy") {
					if (act["side"].s == "A") A.reset();
					else B.reset();
				}
				long long aA = proj(A.get(), ids), aB = proj(B.get(), ids);
				JObj ev;
				JObj bef, aft;
				bef.add("A", bA).add("B", bB);
				aft.add("A", aA).add("B", aB);
				ev.add("e", "copy-step").add("file", fn).add("hist", (long long) (i / files.size())).add("step", (long long) step++).raw("act", toJson(act));
				ev.raw("before", bef.done()).raw("after", aft.done()).add("savedEqual", savedEqual);
				ev.add("foreignA", foreignLinks(A.get())).add("foreignB", foreignLinks(B.get()));
				out += ev.done() + "\n";
			}
		},
		[&](size_t i, const std::string& why, FILE* out) {
			fprintf(out, "{\"e\":\"crash\",\"file\":%s,\"hist\":%s,\"why\":%s}\n", J::str(files[i % files.size()]).s.c_str(), hists[i / files.size()].c_str(), J::str(why).s.c_str());
		});
	printf("{\"behaviours\":%zu,\"runs\":%zu,\"crashes\":%zu}\n", hists.size(), n, crashes);
	return 0;
}
int cmdDbg(int argc, char** argv) {
	NifFile a;
	if (a.Load(samplePath(argc > 1 ? argv[1] : "TestNifFile_SF.nif")) != 0) return 3;
	attachMeshes(a);
	for (auto s : a.GetShapes()) {
		std::vector<Triangle> t;
		bool ok = s->GetTriangles(t);
		auto geo = dynamic_cast<BSGeometry*>(s);
		printf("%s %s meshes=%d ok=%d tris=%zu nv=%u\n", s->name.get().c_str(), s->GetBlockName(), geo ? (int) geo->MeshCount() : -1, (int) ok, t.size(), (unsigned) s->GetNumVertices());
	}
	return 0;
}
Reg r1("c11-run", cmdRun);
Reg r9("c11-dbg", cmdDbg);
} // namespace
