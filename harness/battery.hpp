#pragma once
#include "graph.hpp"
namespace vh {
// Runs every read-only query on the model and returns {queryName: content id} (or one overall id when !asJson).
std::string battery(nifly::NifFile& nif, ContentIds& ids, bool asJson = true);
// the answers that name things instead of numbering them (they do not move when a save sorts or prunes blocks): per node
// its parent's name, per shape its parent, bones, skeleton root, shader, textures - one content id
long long batteryNames(nifly::NifFile& nif, ContentIds& ids);
}
