#pragma once
#include "graph.hpp"
namespace vh {
// Runs every read-only query on the model and returns {queryName: content id} (or one overall id when !asJson).
std::string battery(nifly::NifFile& nif, ContentIds& ids, bool asJson = true);
}
