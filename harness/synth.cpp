// Synthesiser: populated instances of every registered block type in every supported version.
// A generator std::streambuf feeds factory->Load(); hook H4 tells it the kind of the next typed field (bool / enum /
// int / float / count / half / struct), hook H2 which 4-byte fields are references, hook H3 which reads are string refs.
// the factory register keeps its name table protected; the synthesiser needs the list of registered block types
#define protected public
#include "Factory.hpp"
#undef protected
#include "synth.hpp"
#include <unordered_set>
#include <sstream>
#include <set>

using namespace nifly;

namespace vh {
namespace {
struct Gen : std::streambuf, verif::Observer {
	std::mt19937_64 rng;
	int mode; // 0: optional sections off, counts 0..1; 1: on, counts 2; 2: seeded mixture
	size_t served = 0, budget = 1 << 20;
	bool exhausted = false;
	int pending = -1;     // FieldKind of the next typed transfer
	bool pendingRef = false, pendingStr = false;
	uint32_t nTargets = 3, nStrings = 3;
	int boostAt = -1; // ordinal of the scalar field to boost (value boosting), -1 = none
	long long boostVal = -1;
	std::vector<std::pair<int, long long>> overrides;
	int scalarOrd = 0;
	std::string servedBytes;
	std::vector<uint32_t> codes; // (kind, size, is-reference, is-string) of every transfer the reader asked for
	std::vector<uint32_t> sizes; // their true sizes
	std::vector<int> scalarKinds;
	// layout signature: the set of adjacent pairs of transfers (a longer array repeats pairs, a new section adds some)
	uint64_t signature() const {
		std::set<uint64_t> pairs;
		for (size_t i = 0; i + 1 < codes.size(); i++) pairs.insert(uint64_t(codes[i]) * 100003ull + codes[i + 1]);
		uint64_t h = 1469598103934665603ull;
		for (auto p : pairs) h = (h ^ p) * 1099511628211ull;
		// ... and how often each kind of transfer occurs, up to four (one more vector among others like it is a new section too)
		std::map<uint32_t, unsigned> count;
		for (auto c : codes) count[c]++;
		for (auto& c : count) h = (h ^ (uint64_t(c.first) * 8 + std::min(c.second, 4u))) * 1099511628211ull;
		return h ^ (codes.empty() ? 0 : codes[0]);
	}
	std::unordered_set<const void*> live;

	Gen(uint64_t seed, int m) : rng(seed), mode(m) {}

	// --- hooks
	void RefBorn(const NiRef* r) override { live.insert(r); }
	void RefDied(const NiRef* r) override { live.erase(r); }
	bool Field(NiStreamReversible& s, verif::FieldKind k, void* p, size_t n) override {
		if (s.GetMode() != NiStreamReversible::Mode::Reading) return false;
		pending = k;
		pendingRef = (n == 4 && live.count(p) > 0);
		if (pendingRef) readRefs.push_back(p);
		return false;
	}
	void StringRef(NiIStream* is, NiOStream*, NiStringRef* sr) override {
		if (is) {
			pendingStr = true;
			readStrs.push_back(sr);
		}
	}
	std::vector<const void*> readRefs, readStrs;

	uint64_t small(uint64_t hi) { return mode == 1 ? std::min<uint64_t>(hi, 2) : (mode == 0 ? rng() % 2 : rng() % (hi + 1)); }

	std::streamsize xsgetn(char* s, std::streamsize n) override {
		if (served + size_t(n) > budget) {
			exhausted = true;
			memset(s, 0, size_t(n));
			return 0;
		}
		served += size_t(n);
		int k = pending;
		pending = -1;
		bool isRef = pendingRef, isStr = pendingStr;
		pendingRef = false;
		uint64_t v = 0;
		bool scalar = true;
		sizes.push_back(uint32_t(n));
		codes.push_back(uint32_t((k + 2) * 64 + (n == 1 ? 1 : n == 2 ? 2 : n == 4 ? 3 : n == 8 ? 4 : 5) * 4 + (isRef ? 1 : 0) + (isStr ? 2 : 0)));
		if (isStr && n == 4) {
			pendingStr = false;
			// string-table index (>= 20.1.0.3) or inline length (older): both small; NPOS for "no string" sometimes
			v = (mode == 0 && rng() % 2) ? 0xFFFFFFFFu : rng() % nStrings;
			if (inlineStrings) v = rng() % 3;
		}
		else if (isRef) {
			v = (mode == 0 || rng() % 4 == 0) ? 0xFFFFFFFFu : rng() % nTargets;
		}
		else if (k == verif::FK_BOOL) v = mode == 1 ? 1 : (mode == 0 ? 0 : rng() % 2);
		else if (k == verif::FK_COUNT) v = mode == 1 ? 2 : (mode == 0 ? rng() % 2 : rng() % 4);
		else if (k == verif::FK_ENUM) v = small(3);
		else if (k == verif::FK_INT) v = small(3);
		else if (k == verif::FK_FLOAT && n == 4) {
			static const float vals[] = {1.0f, 0.0f, 0.5f, -2.25f, 3.0f};
			float f = vals[mode == 1 ? 0 : rng() % 5];
			memcpy(&v, &f, 4);
		}
		else if (k == verif::FK_HALF && n == 2) v = 0x3C00; // 1.0
		else if (k == verif::FK_STRUCT || n > 8) {
			scalar = false;
			for (std::streamsize i = 0; i < n; i++) {
				static const char pat[4] = {0, 0, (char) 0x80, 0x3f};
				s[i] = pat[i % 4];
			}
		}
		else {
			// untyped transfer (raw Sync(char*, n), operator>>): sizes/lengths/flags - keep small
			v = n == 1 ? (mode == 1 ? 1 : rng() % 2) : small(3);
		}
		if (scalar) {
			if (boostAt >= 0 && scalarOrd == boostAt && !isRef && !isStr && k != verif::FK_FLOAT && k != verif::FK_HALF)
				v = boostVal >= 0 ? uint64_t(boostVal) : ((n == 1) ? 200 : 300);
			if (k != verif::FK_FLOAT && k != verif::FK_HALF)
				for (auto& ov : overrides)
					if (ov.first == scalarOrd) v = ov.second < 0 ? 0xFFFFFFFFull : uint64_t(ov.second);
			scalarKinds.push_back(isRef ? -2 : (isStr ? -3 : k));
			scalarOrd++;
			memset(s, 0, size_t(n));
			memcpy(s, &v, size_t(std::min<std::streamsize>(n, 8)));
		}
		servedBytes.append(s, size_t(n));
		return n;
	}
	int underflow() override { return traits_type::eof(); }
	bool inlineStrings = false;
};
} // namespace

std::vector<std::string> allBlockTypes() {
	static std::vector<std::string> names;
	if (!names.empty()) return names;
	for (auto& kv : NiFactoryRegister::Get().m_registrations) names.push_back(kv.first);
	std::sort(names.begin(), names.end());
	return names;
}

const std::vector<std::pair<std::string, NiVersion>>& synthVersions() {
	static std::vector<std::pair<std::string, NiVersion>> v = {
		{"OB", NiVersion::getOB()},
		{"OB4", NiVersion(NiFileVersion::V20_0_0_4, 11, 11)},
		{"FO3", NiVersion::getFO3()},
		{"SK", NiVersion::getSK()},
		{"SSE", NiVersion::getSSE()},
		{"FO4", NiVersion::getFO4()},
		{"FO4_132", NiVersion(NiFileVersion::V20_2_0_7, 12, 132)},
		{"FO4_139", NiVersion(NiFileVersion::V20_2_0_7, 12, 139)},
		{"FO76", NiVersion::getFO76()},
		{"SF", NiVersion::getSF()},
		{"SF_173", NiVersion(NiFileVersion::V20_2_0_7, 12, 173)},
	};
	return v;
}

NiVersion synthVersion(const std::string& name) {
	for (auto& kv : synthVersions())
		if (kv.first == name) return kv.second;
	return NiVersion::getSSE();
}

static bool synthCore(NifFile& nif, const std::string& type, const std::string& ver, int mode, uint64_t seed, int boostAt, SynthInfo* info, long long boostVal,
					  const std::vector<std::pair<int, long long>>& overrides);
bool synthFile(NifFile& nif, const std::string& type, const std::string& ver, int mode, uint64_t seed, int boostAt, SynthInfo* info, long long boostVal) {
	return synthCore(nif, type, ver, mode, seed, boostAt, info, boostVal, {});
}
bool synthFileOv(NifFile& nif, const std::string& type, const std::string& ver, int mode, uint64_t seed, const std::vector<std::pair<int, long long>>& overrides,
				 SynthInfo* info) {
	return synthCore(nif, type, ver, mode, seed, -1, info, -1, overrides);
}
static bool synthCore(NifFile& nif, const std::string& type, const std::string& ver, int mode, uint64_t seed, int boostAt, SynthInfo* info, long long boostVal,
					  const std::vector<std::pair<int, long long>>& overrides) {
	nif.Create(synthVersion(ver));
	auto& hdr = nif.GetHeader();
	// reference targets: root + two more nodes; five header strings
	for (int i = 0; i < 2; i++) {
		auto n = std::make_unique<NiNode>();
		n->name.get() = i ? "s1" : "s0";
		uint32_t id = hdr.AddBlock(std::move(n));
		nif.GetRootNode()->childRefs.AddBlockRef(id);
	}
	hdr.AddOrFindStringId("s0");
	hdr.AddOrFindStringId("s1");
	hdr.AddOrFindStringId("Scene Root");
	// two more strings that only the synthesised block can refer to: a string reference the block does not enumerate keeps
	// such an index while the rebuilt table no longer has the string
	hdr.AddOrFindStringId("only the block's, a");
	hdr.AddOrFindStringId("only the block's, b");
	auto fac = NiFactoryRegister::Get().GetFactoryByName(type);
	if (!fac) return false;
	Gen gen(seed * 1000003ull + std::hash<std::string>{}(type + ver) % 100000 + mode, mode);
	gen.boostAt = boostAt;
	gen.boostVal = boostVal;
	gen.overrides = overrides;
	gen.inlineStrings = hdr.GetVersion().File() < V20_1_0_3;
	gen.nStrings = 5;
	std::istream is(&gen);
	NiIStream nis(&is, &hdr);
	verif::Observer* prev = verif::observer;
	verif::observer = &gen;
	std::unique_ptr<NiObject> obj;
	try {
		obj = fac->Load(nis);
	}
	catch (...) {
		verif::observer = prev;
		throw;
	}
	verif::observer = prev;
	if (info) {
		info->bytesServed = gen.served;
		info->exhausted = gen.exhausted;
		info->scalars = gen.scalarOrd;
		info->readRefs = gen.readRefs;
		info->readStrs = gen.readStrs;
		info->tape = gen.signature();
		info->ncodes = gen.codes.size();
		{
			uint64_t h = 1469598103934665603ull;
			for (size_t i = 0; i < gen.codes.size(); i++) h = (h ^ (uint64_t(gen.codes[i]) << 24 | std::min<uint32_t>(gen.sizes[i], 0xffffff))) * 1099511628211ull;
			info->exact = h;
		}
		info->served = gen.servedBytes;
		info->scalarKinds = gen.scalarKinds;
	}
	if (gen.exhausted || !obj) return false;
	if (info && info->wantRoundTrip) {
		auto put = [&](NiObject* o) {
			std::ostringstream os(std::ios::binary);
			NiOStream s(&os, &hdr);
			o->Put(s);
			return os.str();
		};
		auto load = [&](const std::string& b) {
			std::istringstream bs(b, std::ios::binary);
			NiIStream s(&bs, &hdr);
			return fac->Load(s);
		};
		try {
			std::string w1 = put(obj.get());
			auto o2 = load(w1);
			std::string w2 = o2 ? put(o2.get()) : std::string();
			auto o3 = o2 ? load(w2) : nullptr;
			std::string w3 = o3 ? put(o3.get()) : std::string();
			info->roundTrip = (o2 && o3) ? (w3 == w2 ? 0 : 1) : -1;
		}
		catch (...) {
			info->roundTrip = -1;
		}
	}
	uint32_t id = hdr.AddBlock(std::move(obj));
	if (info) info->blockId = id;
	// make the block reachable so that default saves keep it: hang it below the root when it is an AV object, else
	// reference it from a keeper extra-data-less node through the root's extra data list where the type allows
	if (auto av = hdr.GetBlock<NiAVObject>(id))
		nif.GetRootNode()->childRefs.AddBlockRef(id);
	else if (hdr.GetBlock<NiExtraData>(id))
		nif.GetRootNode()->extraDataRefs.AddBlockRef(id);
	// what Load's FillStringRefs does, for the synthesised block only (the other blocks were never read from a stream)
	if (hdr.GetVersion().File() >= V20_1_0_1) {
		std::vector<NiStringRef*> srs;
		hdr.GetBlock<NiObject>(id)->GetStringRefs(srs);
		for (auto sr : srs) sr->get() = hdr.GetStringById(sr->GetIndex());
	}
	return true;
}
} // namespace vh
