#include "graph.hpp"
#include "hooks.hpp"
#include <algorithm>
#include <dirent.h>

using namespace nifly;

namespace vh {

// ------------------------------------------------------------------ independent header reader
namespace {
struct Rd {
	const std::string& b;
	size_t p = 0;
	bool fail = false;
	explicit Rd(const std::string& s) : b(s) {}
	template<typename T>
	T get() {
		T v{};
		if (p + sizeof(T) > b.size()) { fail = true; return v; }
		memcpy(&v, b.data() + p, sizeof(T));
		p += sizeof(T);
		return v;
	}
	std::string bytes(size_t n) {
		if (p + n > b.size()) { fail = true; return ""; }
		std::string s = b.substr(p, n);
		p += n;
		return s;
	}
};
bool isOB(uint32_t file, uint32_t user) {
	return ((file == 0x0A01006A || file == 0x0A020000) && user >= 3 && user < 11) || (file == 0x14000004 && (user == 10 || user == 11))
		   || (file == 0x14000005 && user == 11);
}
} // namespace

HeaderInfo parseHeader(const std::string& bytes) {
	HeaderInfo h;
	Rd r(bytes);
	size_t nl = bytes.find('\n');
	if (nl == std::string::npos || nl > 127) return h;
	h.verLine = bytes.substr(0, nl);
	r.p = nl + 1;
	h.file = r.get<uint32_t>();
	if (h.file >= 0x14000003) r.get<uint8_t>(); // endian
	if (h.file >= 0x0A000108) h.user = r.get<uint32_t>();
	h.nblocks = r.get<uint32_t>();
	bool bethesda = (h.file == 0x14020007 && h.user >= 11) || isOB(h.file, h.user);
	if (bethesda) {
		h.stream = r.get<uint32_t>();
		auto sstr = [&] {
			uint8_t n = r.get<uint8_t>();
			return r.bytes(n);
		};
		sstr();
		if (h.stream > 130) r.get<uint32_t>();
		sstr();
		sstr();
		if (h.stream == 130) sstr();
	}
	else if (h.file >= 0x1E000002) {
		uint32_t n = r.get<uint32_t>();
		r.bytes(n);
	}
	if (h.file >= 0x05000001) {
		uint16_t nt = r.get<uint16_t>();
		for (uint16_t i = 0; i < nt && !r.fail; i++) {
			uint32_t n = r.get<uint32_t>();
			if (n > 4096) { r.fail = true; break; }
			h.types.push_back(r.bytes(n));
		}
		for (uint32_t i = 0; i < h.nblocks && !r.fail; i++) h.tidx.push_back(r.get<uint16_t>());
	}
	if (h.file >= 0x14020005) {
		h.hasSizes = true;
		for (uint32_t i = 0; i < h.nblocks && !r.fail; i++) h.sizes.push_back(r.get<uint32_t>());
	}
	if (h.file >= 0x14010001) {
		h.hasStrings = true;
		uint32_t ns = r.get<uint32_t>();
		h.maxLen = r.get<uint32_t>();
		for (uint32_t i = 0; i < ns && !r.fail; i++) {
			uint32_t n = r.get<uint32_t>();
			if (n > (1u << 24)) { r.fail = true; break; }
			h.strings.push_back(r.bytes(n));
		}
	}
	if (h.file >= 0x05000006) {
		uint32_t ng = r.get<uint32_t>();
		for (uint32_t i = 0; i < ng && !r.fail && i < 65536; i++) h.groups.push_back(r.get<uint32_t>());
	}
	h.hdrLen = r.p;
	h.ok = !r.fail;
	return h;
}

NiVersion versionByName(const std::string& n) {
	if (n == "OB") return NiVersion::getOB();
	if (n == "FO3") return NiVersion::getFO3();
	if (n == "SK") return NiVersion::getSK();
	if (n == "SSE") return NiVersion::getSSE();
	if (n == "FO4") return NiVersion::getFO4();
	if (n == "FO76") return NiVersion::getFO76();
	if (n == "SF") return NiVersion::getSF();
	return NiVersion::getSSE();
}

std::string versionName(const NiVersion& v) {
	if (v.IsOB()) return "OB";
	if (v.IsFO3()) return "FO3";
	if (v.IsSK()) return "SK";
	if (v.IsSSE()) return "SSE";
	if (v.IsFO4()) return "FO4";
	if (v.IsFO76()) return "FO76";
	if (v.IsSF()) return "SF";
	return "other";
}

// ------------------------------------------------------------------ projection
static std::string headerBytes(NifFile& nif) {
	NiHeader h2(nif.GetHeader()); // Put() touches flags/stream positions: never on the live header
	std::ostringstream os(std::ios::binary);
	NiOStream s(&os, &h2);
	h2.Put(s);
	return os.str();
}

static void blockRefs(NiObject* b, std::vector<long long>& refs, std::vector<long long>& ptrs, std::vector<long long>* rset) {
	std::vector<uint32_t> idx;
	b->GetChildIndices(idx);
	for (auto v : idx) refs.push_back(refVal(v));
	std::set<NiPtr*> ps;
	b->GetPtrs(ps);
	for (auto p : ps) ptrs.push_back(refVal(p->index));
	std::sort(ptrs.begin(), ptrs.end());
	if (rset) {
		std::set<NiRef*> rs;
		b->GetChildRefs(rs);
		for (auto p : rs) rset->push_back(refVal(p->index));
		std::sort(rset->begin(), rset->end());
	}
}

std::string project(NifFile& nif, UidMap& um, const ProjOpts& o, ContentIds* cids) {
	auto& hdr = nif.GetHeader();
	JObj st;
	st.add("ver", versionName(hdr.GetVersion()));
	st.add("valid", nif.IsValid());
	st.add("unk", nif.HasUnknown());
	uint32_t n = hdr.GetNumBlocks();
	if (o.header) {
		HeaderInfo hi = parseHeader(headerBytes(nif));
		st.add("hs", hi.hasSizes);
		JArr types, tidx, sz;
		for (auto& t : hi.types) types.add(t);
		for (auto v : hi.tidx) tidx.add((long long) v);
		for (auto v : hi.sizes) sz.add((long long) (v > 0x7ffffff0u ? 0x7ffffff0u : v));
		st.add("types", types).add("tidx", tidx).add("sz", sz);
		st.add("hdrBlocks", (long long) hi.nblocks);
		if (o.strs) {
			JArr ss;
			for (auto& s : hi.strings) ss.add(s);
			st.add("strings", ss).add("maxLen", (long long) hi.maxLen);
		}
	}
	JArr blocks;
	for (uint32_t i = 0; i < n; i++) {
		NiObject* b = hdr.GetBlock<NiObject>(i);
		JObj jb;
		if (!b) {
			jb.add("type", "NULL").add("refs", JArr()).add("ptrs", JArr());
			if (o.uids) jb.add("uid", 0);
			blocks.add(jb);
			continue;
		}
		std::vector<long long> refs, ptrs, rset;
		blockRefs(b, refs, ptrs, o.rset ? &rset : nullptr);
		jb.add("type", b->GetBlockName());
		jb.add("refs", jints(refs)).add("ptrs", jints(ptrs));
		if (o.rset) jb.add("rset", jints(rset));
		if (o.uids) jb.add("uid", um.of(b->verifUid.v));
		if (o.names) {
			auto net = dynamic_cast<NiObjectNET*>(b);
			jb.add("name", net ? net->name.get() : std::string());
		}
		if (o.strs) {
			std::vector<NiStringRef*> srs;
			b->GetStringRefs(srs);
			JArr ss;
			for (auto s : srs) ss.add(s->get());
			jb.add("strs", ss);
		}
		if (o.cids && cids) {
			PutInfo pi = putBlock(b, hdr);
			JArr wr, ws;
			for (auto& w : pi.wrefs) wr.add(w.second);
			for (auto& w : pi.wstrs) ws.add(w.second);
			jb.add("size", (long long) pi.bytes.size()).add("cid", cids->of(pi.masked())).add("wrefs", wr).add("wstrs", ws);
		}
		blocks.add(jb);
	}
	st.add("blocks", blocks);
	return st.done();
}

std::string projectModel(NifFile& nif) {
	auto& hdr = nif.GetHeader();
	HeaderInfo hi = parseHeader(headerBytes(nif));
	JArr types, tidx, sz, blocks;
	for (auto& t : hi.types) types.add(t);
	for (auto v : hi.tidx) tidx.add((long long) v);
	for (auto v : hi.sizes) sz.add((long long) v);
	for (uint32_t i = 0; i < hdr.GetNumBlocks(); i++) {
		NiObject* b = hdr.GetBlock<NiObject>(i);
		std::vector<long long> refs, ptrs;
		JObj jb;
		if (b) blockRefs(b, refs, ptrs, nullptr);
		jb.add("ptrs", jints(ptrs)).add("refs", jints(refs)).add("type", b ? b->GetBlockName() : "NULL");
		blocks.add(jb);
	}
	JObj st;
	st.add("blocks", blocks).add("hs", hi.hasSizes).add("sz", sz).add("tidx", tidx).add("types", types);
	return st.done();
}

// ------------------------------------------------------------------ builders
static uint32_t toRef(long long v) { return v < 0 ? NIF_NPOS : (uint32_t) v; }

std::unique_ptr<NiObject> makeBlock(const JV& b, const NiVersion& ver) {
	(void) ver;
	const std::string type = b["type"].s;
	auto fac = NiFactoryRegister::Get().GetFactoryByName(type);
	if (!fac) return nullptr;
	std::unique_ptr<NiObject> obj = fac->Create();
	std::vector<long long> refs = b["refs"].ints(), ptrs = b["ptrs"].ints();
	size_t nx = b.has("nx") ? (size_t) b["nx"].n : 0, np = b.has("np") ? (size_t) b["np"].n : 0, ne = b.has("ne") ? (size_t) b["ne"].n : 0;
	size_t k = 0;
	auto next = [&]() -> uint32_t { return k < refs.size() ? toRef(refs[k++]) : NIF_NPOS; };
	if (auto net = dynamic_cast<NiObjectNET*>(obj.get())) {
		if (b.has("name")) net->name.get() = b["name"].s;
		for (size_t i = 0; i < nx; i++) net->extraDataRefs.AddBlockRef(next());
		net->controllerRef.index = next();
		if (auto av = dynamic_cast<NiAVObject*>(obj.get())) {
			for (size_t i = 0; i < np; i++) av->propertyRefs.AddBlockRef(next());
			av->collisionRef.index = next();
			if (auto node = dynamic_cast<NiNode*>(obj.get())) {
				size_t nchildren = refs.size() >= k + ne ? refs.size() - k - ne : 0;
				for (size_t i = 0; i < nchildren; i++) node->childRefs.AddBlockRef(next());
				for (size_t i = 0; i < ne; i++) node->effectRefs.AddBlockRef(next());
			}
			else if (auto geom = dynamic_cast<NiGeometry*>(obj.get())) {
				geom->DataRef()->index = next();
				geom->SkinInstanceRef()->index = next();
				geom->ShaderPropertyRef()->index = next();
				geom->AlphaPropertyRef()->index = next();
			}
			else if (auto shape = dynamic_cast<NiShape*>(obj.get())) {
				if (shape->SkinInstanceRef()) shape->SkinInstanceRef()->index = next();
				if (shape->ShaderPropertyRef()) shape->ShaderPropertyRef()->index = next();
				if (shape->AlphaPropertyRef()) shape->AlphaPropertyRef()->index = next();
			}
		}
		else if (auto shader = dynamic_cast<NiShader*>(obj.get())) {
			if (shader->TextureSetRef()) shader->TextureSetRef()->index = next();
		}
	}
	else if (auto body = dynamic_cast<bhkRigidBody*>(obj.get())) {
		body->shapeRef.index = next();
		while (k < refs.size()) body->constraintRefs.AddBlockRef(next());
	}
	else if (auto con = dynamic_cast<bhkConstraint*>(obj.get())) {
		for (auto p : ptrs) con->entityRefs.AddBlockRef(toRef(p));
	}
	else if (auto col = dynamic_cast<bhkNiCollisionObject*>(obj.get())) {
		col->bodyRef.index = next();
		col->targetRef.index = ptrs.empty() ? NIF_NPOS : toRef(ptrs[0]);
	}
	else {
		// generic: assign the enumerated references in enumeration order of the live object
		std::set<NiRef*> rs;
		obj->GetChildRefs(rs);
		for (auto r : rs) r->index = next();
		std::set<NiPtr*> ps;
		obj->GetPtrs(ps);
		size_t pk = 0;
		for (auto p : ps) p->index = pk < ptrs.size() ? toRef(ptrs[pk++]) : NIF_NPOS;
	}
	return obj;
}

bool applyGraphOp(NifFile& nif, const JV& a) {
	auto& hdr = nif.GetHeader();
	const std::string op = a["op"].s;
	if (op == "Add") {
		auto o = makeBlock(a["b"], hdr.GetVersion());
		if (!o) return false;
		hdr.AddBlock(std::move(o));
	}
	else if (op == "Del")
		hdr.DeleteBlock((uint32_t) a["i"].n);
	else if (op == "Rep") {
		auto o = makeBlock(a["b"], hdr.GetVersion());
		if (!o) return false;
		hdr.ReplaceBlock((uint32_t) a["i"].n, std::move(o));
	}
	else if (op == "Ord") {
		std::vector<uint32_t> p;
		for (auto v : a["p"].ints()) p.push_back((uint32_t) v);
		hdr.SetBlockOrder(p);
	}
	else if (op == "DelT")
		hdr.DeleteBlockByType(a["t"].s, a["orphaned"].b);
	else if (op == "Prune")
		nif.DeleteUnreferencedBlocks();
	else if (op == "PruneNodes")
		nif.DeleteUnreferencedNodes();
	else if (op == "Create") {
	}
	else
		return false;
	return true;
}


std::string randomGraphOp(NifFile& nif, std::mt19937_64& r) {
	auto& hdr = nif.GetHeader();
	uint32_t n = hdr.GetNumBlocks();
	JObj a;
	int kind = int(r() % 8);
	if (n == 0) kind = 0;
	auto rref = [&](uint32_t lim) -> long long { return (r() % 4 == 0 || lim == 0) ? -1 : (long long) (r() % lim); };
	auto mkBlock = [&](uint32_t lim) {
		JObj b;
		switch (r() % 3) {
			case 0: {
				JArr refs;
				refs.add(-1).add(-1);
				size_t nc = r() % 3;
				for (size_t c = 0; c < nc; c++) refs.add(rref(lim));
				b.add("type", "NiNode").add("refs", refs).add("ptrs", JArr());
				break;
			}
			case 1: b.add("type", "NiStringExtraData").add("refs", JArr()).add("ptrs", JArr()); break;
			default: {
				JArr refs, ptrs;
				refs.add(rref(lim));
				ptrs.add(rref(lim));
				b.add("type", "bhkCollisionObject").add("refs", refs).add("ptrs", ptrs);
			}
		}
		return b;
	};
	switch (kind) {
		case 0: a.add("op", "Add").add("b", mkBlock(n + 1)); break;
		case 1: a.add("op", "Del").add("i", (long long) (r() % n)); break;
		case 2: a.add("op", "Rep").add("i", (long long) (r() % n)).add("b", mkBlock(n)); break;
		case 3: {
			std::vector<long long> p(n);
			for (uint32_t i = 0; i < n; i++) p[i] = i;
			// a few random transpositions / a rotation
			if (r() % 2) std::rotate(p.begin(), p.begin() + (r() % n), p.end());
			for (int k = 0; k < 3; k++) std::swap(p[r() % n], p[r() % n]);
			a.add("op", "Ord").add("p", jints(p));
			break;
		}
		case 4:
		case 5: {
			std::string t = hdr.GetBlockTypeStringById(uint32_t(r() % n));
			a.add("op", "DelT").add("t", t).add("orphaned", kind == 5 || (r() % 3 != 0));
			break;
		}
		case 6: a.add("op", "Prune"); break;
		default: a.add("op", "PruneNodes"); break;
	}
	return a.done();
}

std::string fileAbstract(const std::string& bytes, NifFile* model, ContentIds& cids, NifFile* locator) {
	HeaderInfo h = parseHeader(bytes);
	JObj f;
	f.add("parsed", h.ok).add("len", (long long) bytes.size()).add("hdrLen", (long long) h.hdrLen).add("nblocks", (long long) h.nblocks);
	f.add("hs", h.hasSizes).add("hasStrings", h.hasStrings).add("maxLen", (long long) h.maxLen);
	JArr types, tidx, sizes, strings, blocks;
	for (auto& t : h.types) types.add(t);
	for (auto v : h.tidx) tidx.add((long long) v);
	for (auto v : h.sizes) sizes.add((long long) (v > 0x7ffffff0u ? 0x7ffffff0u : v));
	for (auto& s : h.strings) strings.add(s);
	f.add("types", types).add("tidx", tidx).add("sizes", sizes).add("strings", strings);
	size_t pos = h.hdrLen;
	bool walked = h.ok;
	for (uint32_t i = 0; i < h.nblocks && walked; i++) {
		PutInfo pi;
		bool havePi = false;
		if (model && i < model->GetHeader().GetNumBlocks()) {
			NiObject* b = model->GetHeader().GetBlock<NiObject>(i);
			if (b) {
				pi = putBlock(b, model->GetHeader());
				havePi = true;
			}
		}
		// an opaque block: where its references and string indices sit is known from a model that holds the same block under
		// its real type (the file this one was derived from by relabelling type names)
		if (havePi && locator && i < locator->GetHeader().GetNumBlocks() && dynamic_cast<NiUnknown*>(model->GetHeader().GetBlock<NiObject>(i))) {
			NiObject* lb = locator->GetHeader().GetBlock<NiObject>(i);
			if (lb && !dynamic_cast<NiUnknown*>(lb)) {
				PutInfo lp = putBlock(lb, locator->GetHeader());
				if (lp.bytes.size() == pi.bytes.size()) {
					pi.wrefs = lp.wrefs;
					pi.wstrs = lp.wstrs;
				}
			}
		}
		size_t sz = h.hasSizes ? (i < h.sizes.size() ? h.sizes[i] : 0) : (havePi ? pi.bytes.size() : 0);
		if (!h.hasSizes && !havePi) { walked = false; break; }
		if (pos + sz > bytes.size()) { walked = false; break; }
		std::string blk = bytes.substr(pos, sz);
		pos += sz;
		JArr wr, ws;
		if (havePi && pi.bytes.size() == blk.size()) {
			for (auto& w : pi.wrefs) {
				uint32_t v = 0;
				if (w.first + 4 <= blk.size()) { memcpy(&v, &blk[w.first], 4); memset(&blk[w.first], 0, 4); }
				wr.add(refVal(v));
			}
			for (auto& w : pi.wstrs) {
				uint32_t v = 0;
				if (w.first + 4 <= blk.size()) { memcpy(&v, &blk[w.first], 4); memset(&blk[w.first], 0, 4); }
				ws.add(refVal(v));
			}
		}
		JObj jb;
		std::string tn = i < h.tidx.size() && h.tidx[i] < h.types.size() ? h.types[h.tidx[i]] : std::string("?");
		jb.add("type", tn).add("size", (long long) sz).add("cid", cids.of(blk)).add("wrefs", wr).add("wstrs", ws);
		// what the model that wrote the file holds in this slot (when it is at hand): the type table has to name that
		if (model && i < model->GetHeader().GetNumBlocks()) {
			NiObject* mb = model->GetHeader().GetBlock<NiObject>(i);
			// (opaque blocks of unknown types carry their type name only in the header)
			if (mb && !dynamic_cast<NiUnknown*>(mb)) jb.add("mtype", mb->GetBlockName());
		}
		blocks.add(jb);
	}
	f.add("blocks", blocks).add("walked", walked).add("end", (long long) pos);
	JArr footer;
	if (walked && pos + 8 <= bytes.size()) {
		uint32_t a, b;
		memcpy(&a, &bytes[pos], 4);
		memcpy(&b, &bytes[pos + 4], 4);
		footer.add((long long) a).add((long long) (b > 0x7ffffff0u ? 0x7ffffff0u : b));
	}
	f.add("footer", footer);
	return f.done();
}

std::string saveToString(NifFile& nif, bool optimize, bool sort) {
	std::ostringstream os(std::ios::binary);
	NifSaveOptions so;
	so.optimize = optimize;
	so.sortBlocks = sort;
	nif.Save(os, so);
	return os.str();
}

int loadFromString(NifFile& nif, const std::string& bytes, bool terrain) {
	std::istringstream is(bytes, std::ios::binary);
	NifLoadOptions lo;
	lo.isTerrain = terrain;
	return nif.Load(is, lo);
}

std::string samplePath(const std::string& name) { return repoDir() + "/tests/input/" + name; }

std::string builtAnimationFile(const std::string& ver) {
	NifFile nif;
	nif.Create(versionByName(ver)); // (block 0 is a root node for now)
	auto& hdr = nif.GetHeader();
	auto seqS = std::make_unique<NiControllerSequence>();
	auto seq = seqS.get();
	seq->name.get() = "Idle";
	seq->accumRootName.get() = "NPC Root [Root]";
	seq->frequency = 1.0f;
	seq->stopTime = 2.0f;
	hdr.AddBlock(std::move(seqS));
	auto keysS = std::make_unique<NiTextKeyExtraData>();
	auto keys = keysS.get();
	keys->textKeys.resize(2);
	keys->textKeys[0].time = 0.0f;
	keys->textKeys[0].value.get() = "start";
	keys->textKeys[1].time = 2.0f;
	keys->textKeys[1].value.get() = "end";
	seq->textKeyRef.index = hdr.AddBlock(std::move(keysS));
	const char* bones[] = {"NPC Pelvis [Pelv]", "NPC Spine [Spn0]", "NPC Head [Head]"};
	seq->controlledBlocks.resize(4);
	for (int i = 0; i < 3; i++) {
		auto interpS = std::make_unique<NiTransformInterpolator>();
		auto interp = interpS.get();
		interp->translation = Vector3(1.0f * float(i), 2.0f, 3.0f);
		interp->scale = 1.0f;
		uint32_t interpId = hdr.AddBlock(std::move(interpS));
		interp->dataRef.index = hdr.AddBlock(std::make_unique<NiTransformData>());
		auto& link = seq->controlledBlocks[i];
		link.interpolatorRef.index = interpId;
		link.priority = 30;
		link.nodeName.get() = bones[i];
		link.ctrlType.get() = "NiTransformController";
	}
	{
		auto interpS = std::make_unique<NiFloatInterpolator>();
		auto interp = interpS.get();
		interp->floatValue = 0.5f;
		uint32_t interpId = hdr.AddBlock(std::move(interpS));
		interp->dataRef.index = hdr.AddBlock(std::make_unique<NiFloatData>());
		auto& link = seq->controlledBlocks[3];
		link.interpolatorRef.index = interpId;
		link.priority = 30;
		link.nodeName.get() = "NPC Head [Head]";
		link.ctrlType.get() = "NiFloatExtraDataController";
		link.ctrlID.get() = "Blink";
	}
	// the node Create() made goes away: every reference moves down by one and the sequence becomes block 0
	hdr.DeleteBlock(0u);
	return saveToString(nif, false, false);
}

std::string inputBytes(const std::string& name) {
	const std::string pre = "built:animation:";
	if (name.compare(0, pre.size(), pre) == 0) return builtAnimationFile(name.substr(pre.size()));
	return readFile(samplePath(name));
}

std::vector<std::string> sampleFiles() {
	std::vector<std::string> r;
	std::string d = repoDir() + "/tests/input";
	if (DIR* dir = opendir(d.c_str())) {
		while (auto e = readdir(dir)) {
			std::string n = e->d_name;
			if (n.size() > 4 && n.substr(n.size() - 4) == ".nif") r.push_back(n);
		}
		closedir(dir);
	}
	std::sort(r.begin(), r.end());
	return r;
}

bool relabelTypes(std::string& bytes, const std::vector<std::string>& types) {
	HeaderInfo h = parseHeader(bytes);
	if (!h.ok || !h.hasSizes) return false;
	for (auto& t : types) {
		std::string needle;
		uint32_t n = (uint32_t) t.size();
		needle.append((const char*) &n, 4);
		needle += t;
		size_t p = bytes.find(needle);
		if (p == std::string::npos || p > h.hdrLen) return false;
		bytes[p + 4] = (bytes[p + 4] == 'Q') ? 'Z' : 'Q';
	}
	return true;
}

std::string randomModelOp(NifFile& nif, std::mt19937_64& r) {
	auto& hdr = nif.GetHeader();
	auto nodes = nif.GetNodes();
	auto shapes = nif.GetShapes();
	JObj a;
	switch (r() % 7) {
		case 0: {
			long long parent = (nodes.empty() || r() % 3 == 0) ? -1 : (long long) nif.GetBlockID(nodes[r() % nodes.size()]);
			if (parent < 0 && !nif.GetRootNode()) return "";
			a.add("op", "AddNode").add("name", "m" + std::to_string(r() % 1000)).add("parent", parent);
			break;
		}
		case 1: {
			if (nodes.size() < 2) return "";
			auto c = nodes[r() % nodes.size()];
			auto p = nodes[r() % nodes.size()];
			// (re-parenting a node below itself or below one of its descendants makes a cycle: not a well-formed call)
			std::vector<NiObject*> below;
			nif.GetTree(below, c);
			if (std::find(below.begin(), below.end(), (NiObject*) p) != below.end()) return "";
			a.add("op", "SetParent").add("c", (long long) nif.GetBlockID(c)).add("p", (long long) nif.GetBlockID(p));
			break;
		}
		case 2: {
			if (shapes.empty() || nodes.empty()) return "";
			a.add("op", "SetParent").add("c", (long long) nif.GetBlockID(shapes[r() % shapes.size()])).add("p", (long long) nif.GetBlockID(nodes[r() % nodes.size()]));
			break;
		}
		case 3: {
			if (shapes.empty()) return "";
			a.add("op", "DeleteShape").add("i", (long long) nif.GetBlockID(shapes[r() % shapes.size()]));
			break;
		}
		case 4: {
			if (shapes.empty()) return "";
			a.add("op", r() % 2 ? "DeleteShader" : "DeleteSkinning").add("i", (long long) nif.GetBlockID(shapes[r() % shapes.size()]));
			break;
		}
		case 5: {
			if (nodes.size() < 2) return "";
			auto n = nodes[1 + r() % (nodes.size() - 1)];
			// DeleteNode goes by name: the first node of that name is the one that is deleted
			auto first = nif.FindBlockByName<NiNode>(n->name.get());
			a.add("op", "DeleteNode").add("i", (long long) nif.GetBlockID(first));
			break;
		}
		default: {
			std::vector<NiAVObject*> av;
			for (auto n : nodes) av.push_back(n);
			for (auto s : shapes) av.push_back(s);
			if (av.empty()) return "";
			a.add("op", "AssignExtra").add("i", (long long) nif.GetBlockID(av[r() % av.size()]));
		}
	}
	(void) hdr;
	return a.done();
}

bool applyModelOp(NifFile& nif, const JV& a) {
	auto& hdr = nif.GetHeader();
	const std::string op = a["op"].s;
	if (op == "AddNode") {
		MatTransform t;
		NiNode* parent = a["parent"].n < 0 ? nullptr : hdr.GetBlock<NiNode>(uint32_t(a["parent"].n));
		nif.AddNode(a["name"].s, t, parent);
	}
	else if (op == "SetParent") {
		auto c = hdr.GetBlock<NiObject>(uint32_t(a["c"].n));
		auto p = a["p"].n < 0 ? nullptr : hdr.GetBlock<NiNode>(uint32_t(a["p"].n));
		nif.SetParentNode(c, p);
	}
	else if (op == "DeleteShape") nif.DeleteShape(hdr.GetBlock<NiShape>(uint32_t(a["i"].n)));
	else if (op == "DeleteShader") {
		if (auto s = hdr.GetBlock<NiShape>(uint32_t(a["i"].n))) nif.DeleteShader(s);
	}
	else if (op == "DeleteSkinning") {
		if (auto s = hdr.GetBlock<NiShape>(uint32_t(a["i"].n))) nif.DeleteSkinning(s);
	}
	else if (op == "DeleteNode") {
		if (auto n = hdr.GetBlock<NiNode>(uint32_t(a["i"].n))) nif.DeleteNode(n->name.get());
	}
	else if (op == "AssignExtra") {
		auto ed = std::make_unique<NiStringExtraData>();
		ed->name.get() = "mx";
		ed->stringData.get() = "v";
		if (auto t = hdr.GetBlock<NiAVObject>(uint32_t(a["i"].n))) nif.AssignExtraData(t, std::move(ed));
	}
	else
		return false;
	return true;
}
} // namespace vh
