// C09: deleting vertices keeps a shape and its skin data consistent.
//   c09-cases <cases.ndjson> <out.ndjson>      TLC-enumerated (mesh, index subset) on every kind the versions create,
//                                              unskinned and skinned (2 bones, partitions, FO4 segments)
//   c09-samples <out.ndjson> <rounds>          every shape of every sample: single/prefix/suffix/random/all subsets, repeated
#include "mesh.hpp"

using namespace nifly;
using namespace vh;

namespace {
NiShape* shapeByName(NifFile& nif, const std::string& name) {
	for (auto s : nif.GetShapes())
		if (s->name.get() == name) return s;
	return nullptr;
}

int boneLimitOf(const NiVersion& v) {
	if (v.IsOB() || v.IsFO3()) return 18;
	if (v.IsSSE()) return 80;
	return 1000000;
}

// one deletion step on a live model, logged with before/after and the reloaded shape
void deleteStep(NifFile& nif, const std::string& shapeName, const std::vector<uint16_t>& idx, const std::string& caseJson, bool checkParts, std::string& out) {
	NiShape* shape = shapeByName(nif, shapeName);
	if (!shape) return;
	ContentIds ids;
	std::string s = projectShape(nif, shape, ids);
	bool all = nif.DeleteVertsForShape(shape, idx);
	// (the per-triangle partition labels are a cache that the deletion drops: reading the partitions brings it back)
	if (!all && checkParts) {
		NiVector<BSDismemberSkinInstance::PartitionInfo> pinfo;
		std::vector<int> tp;
		nif.GetShapePartitions(shape, pinfo, tp);
	}
	std::string t = projectShape(nif, shape, ids);
	JObj ev;
	ev.add("e", "delverts").raw("case", caseJson).raw("I", u16json(idx)).add("allDeleted", all).add("checkParts", checkParts);
	ev.add("boneLimit", boneLimitOf(nif.GetHeader().GetVersion()));
	ev.raw("s", s).raw("t", t);
	bool reloaded = false;
	if (!all) {
		NifFile copy(nif);
		std::string bytes = saveToString(copy, true, true);
		NifFile re;
		if (loadFromString(re, bytes) == 0) {
			NiShape* rs = shapeByName(re, shapeName);
			if (rs) {
				ev.raw("r", projectShape(re, rs, ids));
				reloaded = true;
			}
		}
	}
	ev.add("reloaded", reloaded);
	out += ev.done() + "\n";
}

int cmdCases(int argc, char** argv) {
	if (argc < 3) return 2;
	auto lines = readLines(argv[1]);
	std::string outPath = argv[2];
	{ Out trunc(outPath); }
	const char* vers[] = {"OB", "FO3", "SK", "SSE", "FO4", "FO76"};
	size_t chunk = 50, nchunks = (lines.size() + chunk - 1) / chunk;
	size_t crashes = runForkedCases(
		nchunks, outPath, 300,
		[&](size_t ci, std::string& out) {
			for (size_t k = ci * chunk; k < std::min(lines.size(), (ci + 1) * chunk); k++) {
				JV rec = jparse(lines[k]);
				const JV& c = rec["c"];
				size_t nv = (size_t) c["nv"].n;
				std::vector<Triangle> tris;
				for (auto& t : c["tris"].a) tris.emplace_back((uint16_t) t.a[0].n, (uint16_t) t.a[1].n, (uint16_t) t.a[2].n);
				std::vector<uint16_t> idx;
				for (auto v : c["I"].ints()) idx.push_back((uint16_t) v);
				for (int vi = 0; vi < 6; vi++)
					// skinned: 0 none, 1 one partition, 2 two partitions with interleaved vertex ranges whose cached
					// shape-indexed triangles are live when the deletion happens
					// 3: one partition per triangle (up to four, each with a body part id of its own): a deletion that empties
					// several of them at once
					for (int skinned = 0; skinned < 4; skinned++) {
						if (skinned && (tris.empty() || std::string(vers[vi]) == "FO76")) continue;
						if (skinned == 2 && tris.size() < 2) continue;
						if (skinned == 3 && (tris.size() < 3 || nv < 6)) continue;
						NifFile nif;
						nif.Create(versionByName(vers[vi]));
						NiShape* shape = buildShape(nif, "S", nv, tris, true);
						if (!shape) continue;
						if (skinned)
							skinShape(nif, shape, 2, [](uint16_t v) {
								std::vector<std::pair<int, float>> w;
								if (v % 3 == 0) {
									w.emplace_back(0, 0.5f);
									w.emplace_back(1, 0.5f);
								}
								else
									w.emplace_back(int(v % 2), 1.0f);
								return w;
							});
						if (auto sit = dynamic_cast<BSSubIndexTriShape*>(shape)) {
							if (nif.GetHeader().GetVersion().IsFO4() && !tris.empty()) {
								NifSegmentationInfo inf;
								inf.segs.resize(2);
								inf.segs[0].partID = 0;
								inf.segs[0].subs.resize(1);
								inf.segs[0].subs[0].partID = 1;
								inf.segs[1].partID = 2;
								std::vector<int> tp(tris.size());
								for (size_t i = 0; i < tp.size(); i++) tp[i] = int(i % 3);
								NifFile::SetShapeSegments(sit, inf, tp);
							}
						}
						if (skinned == 2) {
							NiVector<BSDismemberSkinInstance::PartitionInfo> pinfo;
							std::vector<int> tp;
							if (!nif.GetShapePartitions(shape, pinfo, tp) || pinfo.empty()) continue;
							BSDismemberSkinInstance::PartitionInfo pi;
							pi.partID = 38;
							pi.flags = PF_EDITOR_VISIBLE;
							pinfo.push_back(pi);
							for (size_t i = 0; i < tp.size(); i++) tp[i] = int(i % 2);
							nif.SetShapePartitions(shape, pinfo, tp);
							nif.UpdateSkinPartitions(shape);
						}
						if (skinned == 3) {
							NiVector<BSDismemberSkinInstance::PartitionInfo> pinfo;
							std::vector<int> tp;
							if (!nif.GetShapePartitions(shape, pinfo, tp) || pinfo.empty()) continue;
							size_t np = std::min<size_t>(4, tp.size());
							pinfo.clear();
							for (size_t q = 0; q < np; q++) {
								BSDismemberSkinInstance::PartitionInfo pi;
								pi.partID = uint16_t(32 + 2 * q);
								pi.flags = PF_EDITOR_VISIBLE;
								pinfo.push_back(pi);
							}
							for (size_t i = 0; i < tp.size(); i++) tp[i] = int(i % np);
							nif.SetShapePartitions(shape, pinfo, tp);
							nif.UpdateSkinPartitions(shape);
						}
						// Oblivion geometry data may hold several UV sets: a second one, distinct per vertex
						if (std::string(vers[vi]) == "OB")
							if (auto gd = shape->GetGeomData()) {
								gd->uvSets.resize(2);
								gd->uvSets[1].resize(nv);
								for (size_t v = 0; v < nv; v++) gd->uvSets[1][v] = Vector2(0.5f + float(v), 0.25f);
								gd->SetUVs(true);
								gd->dataFlags = uint16_t((gd->dataFlags & ~0x3F) | 2);
							}
						// locked normals: every odd vertex and the last one
						{
							auto ln = std::make_unique<NiIntegersExtraData>();
							ln->name.get() = "LOCKEDNORM";
							std::vector<uint32_t> lk;
							for (uint32_t v = 1; v < nv; v += 2) lk.push_back(v);
							if (nv > 0 && (lk.empty() || lk.back() != nv - 1)) lk.push_back(uint32_t(nv - 1));
							for (auto v : lk) ln->integersData.push_back(v);
							nif.AssignExtraData(shape, std::move(ln));
						}
						JObj cj;
						cj.add("case", (long long) k).add("ver", vers[vi]).add("skinned", skinned != 0).add("twoParts", skinned == 2).add("manyParts", skinned == 3);
						// normal form first: attribute values become the ones the storage format holds (halves, bytes)
						NifFile model;
						if (loadFromString(model, saveToString(nif, false, false)) != 0) continue;
						if (skinned >= 2) {
							NiVector<BSDismemberSkinInstance::PartitionInfo> pinfo;
							std::vector<int> tp;
							model.GetShapePartitions(shapeByName(model, "S"), pinfo, tp);
						}
						deleteStep(model, "S", idx, cj.done(), skinned != 0, out);
					}
			}
		},
		[&](size_t ci, const std::string& why, FILE* out) { fprintf(out, "{\"e\":\"crash\",\"chunk\":%zu,\"why\":%s}\n", ci, J::str(why).s.c_str()); });
	printf("{\"cases\":%zu,\"crashes\":%zu}\n", lines.size(), crashes);
	return 0;
}

int cmdSamples(int argc, char** argv) {
	if (argc < 3) return 2;
	std::string outPath = argv[1];
	size_t rounds = strtoul(argv[2], nullptr, 10);
	auto files = sampleFiles();
	uint64_t seed = seedFromEnv();
	{ Out trunc(outPath); }
	// (file, subset kind)
	const char* kinds[] = {"single", "prefix", "suffix", "random", "all", "scattered"};
	size_t crashes = runForkedCases(
		files.size() * 6, outPath, 300,
		[&](size_t i, std::string& out) {
			const std::string& fn = files[i / 6];
			const char* kind = kinds[i % 6];
			NifFile probe;
			if (probe.Load(samplePath(fn)) != 0) return;
			std::vector<std::string> names = probe.GetShapeNames();
			std::mt19937_64 rng(seed * 9176 + i);
			size_t si = 0;
			for (auto& shapeName : names) {
				if (si++ >= 3) break; // at most three shapes per file
				NifFile nif;
				if (nif.Load(samplePath(fn)) != 0) return;
				for (size_t round = 0; round < rounds; round++) {
					NiShape* shape = shapeByName(nif, shapeName);
					if (!shape) break;
					uint16_t nv = shape->GetNumVertices();
					if (nv == 0) break;
					std::vector<uint16_t> idx;
					std::string kd = kind;
					if (kd == "single") idx.push_back(uint16_t(rng() % nv));
					else if (kd == "prefix") for (uint16_t v = 0; v < std::min<uint16_t>(nv, 1 + rng() % 9); v++) idx.push_back(v);
					else if (kd == "suffix") for (uint16_t v = nv - std::min<uint16_t>(nv, 1 + rng() % 9); v < nv; v++) idx.push_back(v);
					else if (kd == "random") { for (uint16_t v = 0; v < nv && idx.size() < 48; v++) if (rng() % std::max<size_t>(5, nv / 40) == 0) idx.push_back(v); }
					else if (kd == "scattered") { for (uint16_t v = uint16_t(rng() % 7); v < nv && idx.size() < 48; v += uint16_t(3 + rng() % std::max<size_t>(40, nv / 30))) idx.push_back(v); }
					else {
						if (nv > 400) break; // deleting everything from a big shape adds nothing over the small ones
						for (uint16_t v = 0; v < nv; v++) idx.push_back(v);
					}
					if (idx.empty()) idx.push_back(0);
					JObj cj;
					cj.add("file", fn).add("shape", shapeName).add("subset", kind).add("round", (long long) round);
					deleteStep(nif, shapeName, idx, cj.done(), false, out);
					if (kd == "all") break;
				}
			}
		},
		[&](size_t i, const std::string& why, FILE* out) {
			fprintf(out, "{\"e\":\"crash\",\"case\":{\"file\":%s,\"subset\":\"%s\"},\"why\":%s}\n", J::str(files[i / 6]).s.c_str(), kinds[i % 6], J::str(why).s.c_str());
		});
	// a shape with more triangles than a 16-bit count holds (Fallout 4 and later store 32-bit counts): a grid of 183 x 183
	// vertices; one corner vertex and one inner vertex go. The expected list is computed here, naively; TLC compares counts
	// and the verdict of the element-wise comparison.
	{
		std::string why;
		int rc = forkRun(
			[&]() -> int {
				FILE* o = fopen(outPath.c_str(), "a");
				for (const char* ver : {"FO4", "FO76"}) {
					const size_t n = 183;
					std::vector<Triangle> tris;
					for (size_t y = 0; y + 1 < n; y++)
						for (size_t x = 0; x + 1 < n; x++) {
							uint16_t a = uint16_t(y * n + x), b = uint16_t(a + 1), c = uint16_t(a + n), d = uint16_t(c + 1);
							tris.emplace_back(a, b, c);
							tris.emplace_back(b, d, c);
						}
					NifFile nif;
					nif.Create(versionByName(ver));
					NiShape* shape = buildShape(nif, "Big", n * n, tris, true);
					if (!shape) continue;
					for (std::vector<uint16_t> idx : {std::vector<uint16_t>{0}, std::vector<uint16_t>{uint16_t(n * 90 + 91)}}) {
						NifFile model;
						if (loadFromString(model, saveToString(nif, false, false)) != 0) continue;
						NiShape* sh = shapeByName(model, "Big");
						if (!sh) continue;
						std::vector<Triangle> before;
						sh->GetTriangles(before);
						std::vector<Triangle> expect;
						for (auto& t : before) {
							if (t.p1 == idx[0] || t.p2 == idx[0] || t.p3 == idx[0]) continue;
							expect.emplace_back(uint16_t(t.p1 > idx[0] ? t.p1 - 1 : t.p1), uint16_t(t.p2 > idx[0] ? t.p2 - 1 : t.p2), uint16_t(t.p3 > idx[0] ? t.p3 - 1 : t.p3));
						}
						model.DeleteVertsForShape(sh, idx);
						sh = shapeByName(model, "Big");
						std::vector<Triangle> got;
						if (sh) sh->GetTriangles(got);
						bool same = got.size() == expect.size();
						for (size_t q = 0; same && q < got.size(); q++) same = got[q].p1 == expect[q].p1 && got[q].p2 == expect[q].p2 && got[q].p3 == expect[q].p3;
						NifFile re;
						long long reNt = -1;
						if (loadFromString(re, saveToString(model, false, false)) == 0)
							if (auto rs = shapeByName(re, "Big")) reNt = (long long) rs->GetNumTriangles();
						fprintf(o, "{\"e\":\"bigdelete\",\"ver\":\"%s\",\"I\":[%u],\"nt\":%zu,\"expectNt\":%zu,\"gotNt\":%zu,\"sameTris\":%s,\"reloadNt\":%lld}\n", ver, unsigned(idx[0]),
								before.size(), expect.size(), got.size(), same ? "true" : "false", reNt);
					}
				}
				fclose(o);
				return 0;
			},
			300, why);
		if (rc != 0) {
			FILE* o = fopen(outPath.c_str(), "a");
			fprintf(o, "{\"e\":\"crash\",\"case\":{\"file\":\"(grid of 183 x 183 vertices)\"},\"why\":%s}\n", J::str(why).s.c_str());
			fclose(o);
		}
	}
	printf("{\"files\":%zu,\"crashes\":%zu}\n", files.size(), crashes);
	return 0;
}
Reg r1("c09-cases", cmdCases);
Reg r2("c09-samples", cmdSamples);
} // namespace
