// Projection of a NifFile to the abstract state of NifGraph.tla / NifWire.tla, an independent header parser,
// and builders that construct real blocks from model blocks.
#pragma once
#include "common.hpp"
#include "NifFile.hpp"
#include "bhk.hpp"

namespace vh {
using nifly::NifFile;
using nifly::NiObject;

// ---- independent reader of the header that NiHeader::Put / NifFile::Save writes (shares no code with nifly)
struct HeaderInfo {
	bool ok = false;
	std::string verLine;
	uint32_t file = 0, user = 0, stream = 0, nblocks = 0;
	std::vector<std::string> types;
	std::vector<uint32_t> tidx;
	std::vector<uint32_t> sizes;
	bool hasSizes = false, hasStrings = false;
	std::vector<std::string> strings;
	uint32_t maxLen = 0;
	std::vector<uint32_t> groups;
	size_t hdrLen = 0; // bytes consumed
};
HeaderInfo parseHeader(const std::string& bytes);
// same-length rename of block types inside the header's type table (first character -> 'Q' / 'Z'): the library then holds
// the blocks of these types as opaque ones. No library code involved. False if a name is not found in the header.
bool relabelTypes(std::string& bytes, const std::vector<std::string>& types);

// canonical names of the versions the harness creates models in
nifly::NiVersion versionByName(const std::string& n);
std::string versionName(const nifly::NiVersion& v);

// ---- projection
struct UidMap {
	std::map<uint64_t, int> m;
	int of(uint64_t u) {
		auto it = m.find(u);
		if (it != m.end()) return it->second;
		int id = (int) m.size() + 1;
		m[u] = id;
		return id;
	}
};

inline long long refVal(uint32_t v) {
	if (v == nifly::NIF_NPOS) return -1;
	if (v >= 0x7fffffffu) return 2147483646; // keep inside TLC's 32-bit integers
	return (long long) v;
}

struct ProjOpts {
	bool uids = true;      // include block uids (renumbered through the UidMap)
	bool names = false;    // include NiObjectNET names
	bool strs = false;     // include all string refs
	bool header = true;    // include header tables (types/tidx/sz), obtained by parsing NiHeader::Put output
	bool cids = false;     // include payload content ids and sizes (Put of a clone of each block)
	bool rset = false;     // include sorted values of GetChildRefs (to cross-check GetChildIndices)
};

// state record as JSON text
std::string project(NifFile& nif, UidMap& um, const ProjOpts& o = ProjOpts(), ContentIds* cids = nullptr);
// model-comparable part only: [hs, types, tidx, sz, blocks[type, refs, ptrs]] in canonical key order
std::string projectModel(NifFile& nif);

// ---- builders
std::unique_ptr<NiObject> makeBlock(const JV& b, const nifly::NiVersion& ver);
// Apply one NifGraph action (as exported by TLC) to a live model. Returns false if the op is unknown.
bool applyGraphOp(NifFile& nif, const JV& a);
// NifFile-level edits on nodes and shapes (AddNode, SetParent, DeleteNode, DeleteShape, DeleteShader, DeleteSkinning,
// AssignExtra); arguments are block indices at the time of the call. randomModelOp returns "" when nothing applies.
std::string randomModelOp(NifFile& nif, std::mt19937_64& r);
bool applyModelOp(NifFile& nif, const JV& a);
// A seeded random NifGraph action (JSON) that is applicable to the model (well-formed arguments)
std::string randomGraphOp(NifFile& nif, std::mt19937_64& rng);

// Abstract view of saved bytes, read by the independent header parser and a walk over the size table. When `model` is
// given (the in-memory model right after the save) reference/string-index fields are masked at the offsets recorded
// while Put()-ing a clone of model block i, and their values are read from the file.
std::string fileAbstract(const std::string& bytes, NifFile* model, ContentIds& cids, NifFile* locator = nullptr);
std::string saveToString(NifFile& nif, bool optimize, bool sort);
int loadFromString(NifFile& nif, const std::string& bytes, bool terrain = false);
std::string samplePath(const std::string& name);
// bytes of an input by name: a sample file, or "built:animation:<version>" - an animation file (first block a
// NiControllerSequence, no node anywhere) built through the public API
std::string inputBytes(const std::string& name);
std::string builtAnimationFile(const std::string& ver);
std::vector<std::string> sampleFiles();
} // namespace vh
