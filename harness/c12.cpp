// C12: LE <-> SE conversion preserves geometry and skinning and yields a valid file.
//   c12-cases <cases.ndjson> <out.ndjson>   TLC-enumerated option x feature combinations on constructed models
//   c12-samples <out.ndjson>                the LE / SE sample files with default options
#include "mesh.hpp"

using namespace nifly;
using namespace vh;

namespace {
std::string shapesJson(NifFile& nif, ContentIds& ids) {
	JArr a;
	for (auto s : nif.GetShapes()) a.raw(projectShape(nif, s, ids));
	return a.done();
}
int boneLimitOf(const NiVersion& v) { return v.IsSSE() ? 80 : 1000000; }

void convertEvent(NifFile& nif, OptOptions opts, const std::string& caseJson, bool thereAndBack, std::string& out) {
	ContentIds ids;
	NiVersion src = nif.GetHeader().GetVersion();
	std::string s = shapesJson(nif, ids);
	OptResult res = nif.OptimizeFor(opts);
	JObj ev;
	ev.add("e", "convert").raw("case", caseJson).add("mismatch", res.versionMismatch).add("target", versionName(opts.targetVersion));
	ev.add("boneLimit", boneLimitOf(opts.targetVersion)).raw("s", s);
	if (!res.versionMismatch) {
		ev.raw("t", shapesJson(nif, ids));
		NifFile copy(nif);
		std::string bytes = saveToString(copy, true, true);
		NifFile re;
		bool reloaded = loadFromString(re, bytes) == 0;
		ev.add("reloaded", reloaded);
		if (reloaded) {
			// a sorting save may reorder the shapes: list the reloaded shapes in the order of the converted model (by name)
			JArr rl;
			auto rshapes = re.GetShapes();
			std::vector<bool> used(rshapes.size(), false);
			for (auto ts : nif.GetShapes()) {
				for (size_t i = 0; i < rshapes.size(); i++)
					if (!used[i] && rshapes[i]->name.get() == ts->name.get()) {
						used[i] = true;
						rl.raw(projectShape(re, rshapes[i], ids));
						break;
					}
			}
			ev.add("rver", versionName(re.GetHeader().GetVersion())).raw("r", rl.done());
			if (thereAndBack) {
				OptOptions back = opts;
				back.targetVersion = src;
				OptResult r2 = re.OptimizeFor(back);
				NifFile re2;
				if (!r2.versionMismatch && loadFromString(re2, saveToString(re, true, true)) == 0) {
					JArr bl;
					auto bshapes = re2.GetShapes();
					std::vector<bool> used2(bshapes.size(), false);
					for (auto ts : nif.GetShapes())
						for (size_t i = 0; i < bshapes.size(); i++)
							if (!used2[i] && bshapes[i]->name.get() == ts->name.get()) {
								used2[i] = true;
								bl.raw(projectShape(re2, bshapes[i], ids));
								break;
							}
					ev.add("back", true).raw("b", bl.done());
				}
				else ev.add("back", false);
			}
			else
				ev.add("back", false);
		}
		else
			ev.add("back", false);
	}
	out += ev.done() + "\n";
}

void buildCase(const JV& c, size_t k, std::string& out) {
	bool toSSE = c["toSSE"].b;
	NifFile gen;
	gen.Create(toSSE ? NiVersion::getSK() : NiVersion::getSSE());
	// many bones: more than any version's per-partition limit (the LE side has none), so the conversion has to split
	bool many = c.has("manyBones") && c["manyBones"].b;
	size_t nv = many ? 210 : 12;
	std::vector<Triangle> tris;
	for (size_t i = 0; i + 2 < nv; i++) tris.emplace_back(uint16_t(i), uint16_t(i + 1), uint16_t(i + 2));
	const std::string oddEarly = c.has("odd") ? c["odd"].s : std::string();
	// two-sided: every triangle also with the opposite winding (cloth, hair cards)
	if (oddEarly == "twoSided")
		for (size_t i = 0, n0 = tris.size(); i < n0; i++) tris.emplace_back(tris[i].p1, tris[i].p3, tris[i].p2);
	std::vector<std::string> names = {"S", "S2"}; // (the by-name skinning API needs distinct names; a duplicate is made afterwards)
	for (size_t si = 0; si < 2; si++) {
		NiShape* shape = buildShape(gen, names[si], nv, tris, true);
		if (!shape) return;
		if (c["colors"].b) {
			std::vector<Color4> cols;
			for (size_t i = 0; i < nv; i++) cols.emplace_back(float(i & 1), float((i >> 1) & 1), si ? 1.0f : 0.0f, 1.0f);
			gen.SetColorsForShape(shape, cols);
		}
		if (c["skinned"].b) {
			size_t nb = many ? 100 : 4;
			skinShape(gen, shape, nb, [&](uint16_t v) {
				std::vector<std::pair<int, float>> w;
				int b = int((size_t(v) * nb) / nv);
				// no wrap-around: the partitions of the two halves get different bone palettes ({0,1,2}, {1,2,3})
				if (b + 1 < int(nb)) {
					w.emplace_back(b, 0.75f);
					w.emplace_back(b + 1, 0.25f);
				}
				else
					w.emplace_back(b, 1.0f);
				return w;
			});
			if (c["parts"].b && gen.GetHeader().GetBlock<NiSkinInstance>(shape->SkinInstanceRef())) {
				// two dismember partitions with different bone palettes
				NiVector<BSDismemberSkinInstance::PartitionInfo> pinfo;
				std::vector<int> tp;
				if (gen.GetShapePartitions(shape, pinfo, tp)) {
					BSDismemberSkinInstance::PartitionInfo pi;
					pi.partID = 38;
					pi.flags = PF_EDITOR_VISIBLE;
					pinfo.push_back(pi);
					for (size_t i = 0; i < tp.size(); i++) tp[i] = i < tp.size() / 2 ? 0 : 1;
					gen.SetShapePartitions(shape, pinfo, tp);
					gen.UpdateSkinPartitions(shape);
				}
			}
		}
	}
	if (c["dupNames"].b)
		for (auto sh : gen.GetShapes())
			if (sh->name.get() == "S2") NifFile::RenameShape(sh, "S");
	if (c["strips"].b && toSSE && !(c["headParts"].b && c["skinned"].b)) addStripsShape(gen); // (head-part models hold skinned shapes only)
	NifFile nif;
	if (loadFromString(nif, saveToString(gen, true, true)) != 0) return;
	std::string odd = c.has("odd") ? c["odd"].s : std::string();
	if (odd == "rootLater") {
		// the first geometry data block and the root change places: a file with a loose-to-be block in front of its root
		auto& hd = nif.GetHeader();
		uint32_t n = hd.GetNumBlocks(), d = NIF_NPOS;
		for (uint32_t b = 1; b < n && d == NIF_NPOS; b++)
			if (hd.GetBlock<NiTriShapeData>(b)) d = b;
		if (d == NIF_NPOS) return;
		std::vector<uint32_t> order(n);
		for (uint32_t b = 0; b < n; b++) order[b] = b;
		order[0] = d;
		order[d] = 0;
		hd.SetBlockOrder(order);
		NifFile re;
		if (loadFromString(re, saveToString(nif, false, false)) != 0) return;
		nif.CopyFrom(re);
	}
	else if (odd == "sharedData") {
		// a second instance of the first shape: its own shape block, the geometry data block shared
		NiShape* first = nullptr;
		for (auto sh : nif.GetShapes())
			if (sh->HasType<NiTriShape>() && !first) first = sh;
		if (!first) return;
		NiShape* inst = nif.CloneShape(first, "Inst");
		if (!inst || !inst->DataRef() || inst->DataRef()->IsEmpty()) return;
		uint32_t own = inst->DataRef()->index;
		inst->DataRef()->index = first->DataRef()->index;
		nif.GetHeader().DeleteBlock(own);
		nif.LinkGeomData();
		NifFile re;
		if (loadFromString(re, saveToString(nif, false, false)) != 0) return;
		nif.CopyFrom(re);
	}
	else if (odd == "slotWeights") {
		// Skyrim SE: the skin data block carries no vertex weights (they live in the vertex records only), and a vertex
		// keeps the weight of a bone in a slot of its own, so that empty slots come before used ones
		auto& hd = nif.GetHeader();
		for (auto sh : nif.GetShapes()) {
			auto bs = dynamic_cast<BSTriShape*>(sh);
			auto si = hd.GetBlock<NiSkinInstance>(sh->SkinInstanceRef());
			auto sd = si ? hd.GetBlock(si->dataRef) : nullptr;
			if (!bs || !sd) continue;
			sd->hasVertWeights = 0;
			for (auto& b : sd->bones) {
				b.vertexWeights.clear();
				b.numVertices = 0;
			}
			for (auto& vd : bs->vertData) {
				float w[4] = {vd.weights[0], vd.weights[1], vd.weights[2], vd.weights[3]};
				uint8_t bn[4] = {vd.weightBones[0], vd.weightBones[1], vd.weightBones[2], vd.weightBones[3]};
				for (int q = 0; q < 4; q++) {
					vd.weights[q] = 0.0f;
					vd.weightBones[q] = 0;
				}
				// slot = bone number modulo four (the models here use at most two neighbouring bones per vertex)
				for (int q = 0; q < 4; q++)
					if (w[q] != 0.0f) {
						vd.weights[bn[q] % 4] = w[q];
						vd.weightBones[bn[q] % 4] = bn[q];
					}
			}
		}
		NifFile re;
		if (loadFromString(re, saveToString(nif, false, false)) != 0) return;
		nif.CopyFrom(re);
	}
	else if (odd == "uncovered") {
		// two more triangles on every skinned shape, partitions left as they are
		for (auto sh : nif.GetShapes()) {
			if (!sh->IsSkinned() && (!sh->SkinInstanceRef() || sh->SkinInstanceRef()->IsEmpty())) continue;
			std::vector<Triangle> t;
			sh->GetTriangles(t);
			uint16_t m = sh->GetNumVertices();
			if (m < 6) continue;
			t.emplace_back(uint16_t(0), uint16_t(m / 2), uint16_t(m - 1));
			t.emplace_back(uint16_t(1), uint16_t(m / 2 + 1), uint16_t(m - 2));
			sh->SetTriangles(t);
		}
		NifFile re;
		if (loadFromString(re, saveToString(nif, false, false)) != 0) return;
		nif.CopyFrom(re);
	}
	OptOptions o;
	o.targetVersion = toSSE ? NiVersion::getSSE() : NiVersion::getSK();
	// "use ONLY for head parts": head parts are skinned, and on the way back the shapes must be dynamic ones
	o.headParts = c["headParts"].b && c["skinned"].b && toSSE;
	o.removeParallax = c["removeParallax"].b;
	o.calcBounds = c["calcBounds"].b;
	o.fixBSXFlags = c["fixBSX"].b;
	o.fixShaderFlags = c["fixShader"].b;
	JObj cj;
	cj.add("case", (long long) k).raw("cfg", toJson(c));
	convertEvent(nif, o, cj.done(), true, out);
}

int cmdCases(int argc, char** argv) {
	if (argc < 3) return 2;
	auto lines = readLines(argv[1]);
	std::string outPath = argv[2];
	{ Out trunc(outPath); }
	size_t crashes = runForkedCases(
		lines.size(), outPath, 120,
		[&](size_t k, std::string& out) {
			JV rec = jparse(lines[k]);
			buildCase(rec["c"], k, out);
		},
		[&](size_t k, const std::string& why, FILE* out) { fprintf(out, "{\"e\":\"crash\",\"case\":%s,\"why\":%s}\n", lines[k].c_str(), J::str(why).s.c_str()); });
	printf("{\"cases\":%zu,\"crashes\":%zu}\n", lines.size(), crashes);
	return 0;
}

int cmdSamples(int argc, char** argv) {
	if (argc < 2) return 2;
	std::string outPath = argv[1];
	auto files = sampleFiles();
	{ Out trunc(outPath); }
	size_t crashes = runForkedCases(
		files.size() * 2, outPath, 200,
		[&](size_t i, std::string& out) {
			NifFile nif;
			if (nif.Load(samplePath(files[i / 2])) != 0) return;
			auto& v = nif.GetHeader().GetVersion();
			if (!v.IsSK() && !v.IsSSE()) return;
			OptOptions o;
			o.targetVersion = v.IsSK() ? NiVersion::getSSE() : NiVersion::getSK();
			bool dynamic = false;
			for (auto s : nif.GetShapes())
				if (s->HasType<BSDynamicTriShape>()) dynamic = true;
			o.headParts = (i % 2 == 1);
			bool allSkinned = true;
			for (auto s : nif.GetShapes())
				if (!s->IsSkinned()) allSkinned = false;
			if (o.headParts && ((v.IsSSE() && !dynamic) || !allSkinned)) return; // "use ONLY for head parts": skinned, dynamic on the SE side
			JObj cj;
			cj.add("file", files[i / 2]).add("headParts", o.headParts);
			convertEvent(nif, o, cj.done(), true, out);
		},
		[&](size_t i, const std::string& why, FILE* out) {
			fprintf(out, "{\"e\":\"crash\",\"case\":{\"file\":%s},\"why\":%s}\n", J::str(files[i / 2]).s.c_str(), J::str(why).s.c_str());
		});
	printf("{\"files\":%zu,\"crashes\":%zu}\n", files.size(), crashes);
	return 0;
}
Reg r1("c12-cases", cmdCases);
Reg r2("c12-samples", cmdSamples);
} // namespace
