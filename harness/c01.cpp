// C01 (also feeds C07): load/save round trips of sample and synthesised files.
//   c01-probe <out.ndjson> <jobs> [cap]      value sweep: settings of one or two generator fields that steer a block's layout
//   c01-synth <out.ndjson> <versionsCsv|all> <modesCsv> <typeStride> <typeOffset> <boost:0|1>
//       for each type x version x mode: synthesise, save raw (f0), load, save raw (F1), load, save raw (F2), save raw (F3);
//       default-save chain G1,G2,G3 by repeated load-then-save. Abstract files are logged for the round-trip machine.
//   c01-samples <out.ndjson>
#include "battery.hpp"
#include "hooks.hpp"
#include "synth.hpp"
#include <sys/wait.h>
#include <unistd.h>

using namespace nifly;
using namespace vh;

namespace {
// abstract file with cids *not* masked (byte-level fixed point is the claim)
// abstract file; the model that wrote it supplies the reference / string-index offsets
std::string absFile(const std::string& bytes, NifFile& writer, ContentIds& ids) { return fileAbstract(bytes, &writer, ids); }

// The round trip of one input file f0. Returns one "rt" event.
std::string roundTrip(const std::string& f0, const std::string& caseJson) {
	ContentIds ids;
	JObj ev;
	ev.add("e", "rt").raw("case", caseJson);
	NifFile a;
	int rc0 = loadFromString(a, f0);
	ev.add("load0", rc0);
	if (rc0 != 0) return ev.done() + "\n";
	ev.add("unk", a.HasUnknown());
	std::string F1 = saveToString(a, false, false);
	NifFile b;
	int rc1 = loadFromString(b, F1);
	ev.add("load1", rc1);
	if (rc1 != 0) return ev.done() + "\n";
	std::string F2 = saveToString(b, false, false);
	std::string aF2 = absFile(F2, b, ids);
	std::string F3 = saveToString(b, false, false);
	ev.raw("F1", absFile(F1, a, ids)).raw("F2", aF2).raw("F3", absFile(F3, b, ids));
	ev.add("F1eqF2", F1 == F2).add("F2eqF3", F2 == F3);
	// default save: repeat load-then-save
	std::string g = f0, prev;
	JArr gs;
	JArr geq;
	int grc = 0;
	for (int round = 1; round <= 4 && grc == 0; round++) {
		NifFile c;
		grc = loadFromString(c, g);
		if (grc != 0) break;
		prev = g;
		g = saveToString(c, true, true);
		gs.raw(absFile(g, c, ids));
		geq.add(J::boolean(round > 1 && g == prev));
	}
	ev.add("gload", grc).raw("G", gs.done()).raw("Geq", geq.done());
	return ev.done() + "\n";
}

// f with the payload of block `id` replaced by `payload` (size table patched); empty if the file cannot be spliced
std::string spliceBlock(const std::string& f, uint32_t id, const std::string& payload) {
	HeaderInfo h = parseHeader(f);
	if (!h.ok || id >= h.nblocks || payload.empty()) return "";
	std::vector<uint32_t> sizes = h.sizes;
	if (!h.hasSizes) {
		// no size table (Oblivion): sizes of the blocks in front are measured by writing them
		NifFile probe;
		if (loadFromString(probe, f) != 0) return "";
		sizes.clear();
		for (uint32_t b = 0; b < h.nblocks; b++) {
			auto o = probe.GetHeader().GetBlock<NiObject>(b);
			if (!o) return "";
			sizes.push_back((uint32_t) putBlock(o, probe.GetHeader()).bytes.size());
		}
	}
	size_t start = h.hdrLen;
	for (uint32_t b = 0; b < id; b++) start += sizes[b];
	if (start + sizes[id] > f.size()) return "";
	std::string g = f.substr(0, start) + payload + f.substr(start + sizes[id]);
	if (h.hasSizes) {
		// the size table is the only place in the header that holds all block sizes in a row
		std::string pat((const char*) h.sizes.data(), h.sizes.size() * 4);
		size_t p = f.find(pat);
		if (p == std::string::npos || p + pat.size() > h.hdrLen || f.find(pat, p + 1) < h.hdrLen) return "";
		uint32_t n = (uint32_t) payload.size();
		memcpy(&g[p + 4 * id], &n, 4);
	}
	return g;
}

// the same model stored back to front (every reference points forward, the root comes last): a sorting save has to move
// every block
void backToFront(NifFile& nif, const std::string& caseJson, std::string& out) {
	auto& hdr = nif.GetHeader();
	uint32_t n = hdr.GetNumBlocks();
	std::vector<uint32_t> order(n);
	for (uint32_t b = 0; b < n; b++) order[b] = n - 1 - b;
	markPhase(1);
	hdr.SetBlockOrder(order);
	std::string fr = saveToString(nif, false, false);
	markPhase(2);
	std::string cj = caseJson;
	cj.insert(cj.size() - 1, ",\"input\":\"stored back to front\"");
	out += roundTrip(fr, cj);
}

int cmdSynth(int argc, char** argv) {
	if (argc < 7) return 2;
	std::string outPath = argv[1];
	std::vector<std::string> versions, modes;
	{
		std::stringstream ss(argv[2]);
		std::string v;
		while (std::getline(ss, v, ',')) versions.push_back(v);
		if (versions.size() == 1 && versions[0] == "all") {
			versions.clear();
			for (auto& kv : synthVersions()) versions.push_back(kv.first);
		}
		std::stringstream ms(argv[3]);
		while (std::getline(ms, v, ',')) modes.push_back(v);
	}
	size_t stride = strtoul(argv[4], nullptr, 10), offset = strtoul(argv[5], nullptr, 10);
	bool boost = atoi(argv[6]) != 0;
	auto types = allBlockTypes();
	struct Case {
		std::string type, ver;
		int mode;
		int boostAt;
	};
	std::vector<Case> cases;
	uint64_t seed = seedFromEnv();
	const char* onlyType = getenv("NVH_ONLY_TYPE");
	const char* onlyBoost = getenv("NVH_ONLY_BOOST");
	for (size_t ti = 0; ti < types.size(); ti++) {
		if (stride > 1 && ti % stride != offset % stride) continue;
		if (onlyType && types[ti] != onlyType) continue;
		if (onlyType && onlyBoost) {
			for (auto& v : versions)
				for (auto& m : modes) cases.push_back({types[ti], v, atoi(m.c_str()), atoi(onlyBoost)});
			continue;
		}
		for (auto& v : versions)
			for (auto& m : modes) {
				cases.push_back({types[ti], v, atoi(m.c_str()), -1});
				if (boost)
					for (int b = 0; b < 24; b += 1) cases.push_back({types[ti], v, atoi(m.c_str()), b});
			}
	}
	{ Out trunc(outPath); }
	auto caseOf = [&](size_t k) {
		JObj c;
		c.add("type", cases[k].type).add("ver", cases[k].ver).add("mode", cases[k].mode).add("boost", cases[k].boostAt).add("seed", (long long) seed);
		return c.done();
	};
	size_t crashes = runForkedCases(
		cases.size(), outPath, 20,
		[&](size_t k, std::string& out) {
			NifFile nif;
			SynthInfo si;
			if (!synthFile(nif, cases[k].type, cases[k].ver, cases[k].mode, seed, cases[k].boostAt, &si)) {
				out += "{\"e\":\"discard\",\"case\":" + caseOf(k) + ",\"why\":\"generator budget\"}\n";
				return;
			}
			if (cases[k].boostAt >= si.scalars) return; // no such scalar field
			markPhase(1); // from here on the library only handles its own model / its own output
			std::string f0 = saveToString(nif, false, false);
			markPhase(2);
			out += roundTrip(f0, caseOf(k));
			// the same file with the synthesised block's payload replaced by the very bytes the generator served: an input
			// that no build of this library wrote (what f0 holds went through one read and one write already)
			std::string fg = spliceBlock(f0, si.blockId, si.served);
			if (!fg.empty() && fg != f0) {
				std::string cj = caseOf(k);
				cj.insert(cj.size() - 1, ",\"input\":\"generator bytes\"");
				out += roundTrip(fg, cj);
			}
			if (cases[k].boostAt < 0) backToFront(nif, caseOf(k), out);
		},
		[&](size_t k, const std::string& why, FILE* out) {
			// a crash / hang / OOM while handling a boosted instance that the library itself would reject is outside the
			// quantifier only if it happens before the first file exists; the event says where it died
			int ph = lastCrashPhase();
			fprintf(out, "{\"e\":\"%s\",\"case\":%s,\"why\":%s,\"phase\":%d}\n", ph == 0 ? "discard" : "crash", caseOf(k).c_str(),
					J::str(ph == 0 ? "generator input made the reader fail: " + why : why).s.c_str(), ph);
		},
		2048);
	printf("{\"cases\":%zu,\"types\":%zu,\"crashes\":%zu}\n", cases.size(), types.size(), crashes);
	return 0;
}

// c01-samples <out.ndjson> [editVariants]: the sample files, and files the library writes after seeded block-graph edits
// of them (appended nodes with empty child entries, loose blocks and chains of loose blocks, reorderings, deletions)
int cmdSamples(int argc, char** argv) {
	if (argc < 2) return 2;
	std::string outPath = argv[1];
	size_t variants = argc > 2 ? strtoul(argv[2], nullptr, 10) : 0;
	auto files = sampleFiles();
	uint64_t seed = seedFromEnv();
	{ Out trunc(outPath); }
	size_t per = 1 + variants;
	// the other file versions of the same game: a sample's model written under each of them is an input of its own
	struct Derived {
		size_t file;
		NiVersion ver;
		const char* label;
	};
	std::vector<Derived> derived;
	for (size_t k = 0; k < files.size(); k++) {
		NifFile probe;
		if (probe.Load(samplePath(files[k])) != 0) continue;
		auto& pv = probe.GetHeader().GetVersion();
		if (pv.IsOB()) {
			derived.push_back({k, NiVersion(NiFileVersion::V10_1_0_106, 10, 11), "Oblivion 10.1.0.106"});
			derived.push_back({k, NiVersion(NiFileVersion::V10_2_0_0, 10, 11), "Oblivion 10.2.0.0"});
			derived.push_back({k, NiVersion(NiFileVersion::V20_0_0_4, 11, 11), "Oblivion 20.0.0.4"});
		}
		else if (pv.Stream() == 172)
			derived.push_back({k, NiVersion(NiFileVersion::V20_2_0_7, 12, 173), "Starfield stream 173"});
	}
	size_t plain = files.size() * per;
	size_t nder = derived.size();
	size_t crashes = runForkedCases(
		plain + nder + 2 * files.size(), outPath, 120,
		[&](size_t i, std::string& out) {
			if (i >= plain + nder) {
				// two more inputs per sample: one block type relabelled so that the library holds those blocks as opaque ones
				// (files with types it does not know are files it accepts), and skin partitions that declare their triangles
				// but store no face list
				size_t j = i - plain - nder, k = j / 2;
				std::string f0 = readFile(samplePath(files[k]));
				JObj c;
				c.add("file", files[k]).add("variant", (long long) (300 + j)).add("seed", (long long) seed);
				if (j % 2 == 0) {
					HeaderInfo h = parseHeader(f0);
					if (!h.ok || !h.hasSizes || h.types.empty()) return;
					const std::string t = h.types[(seed + k) % h.types.size()];
					if (!relabelTypes(f0, {t})) return;
					c.add("as", "type " + t + " relabelled unknown");
				}
				else {
					NifFile nif;
					if (loadFromString(nif, f0) != 0) return;
					size_t changed = 0;
					for (uint32_t b = 0; b < nif.GetHeader().GetNumBlocks(); b++)
						if (auto sp = nif.GetHeader().GetBlock<NiSkinPartition>(b))
							for (auto& p : sp->partitions)
								if (p.hasFaces && p.numStrips == 0 && p.numTriangles > 0 && !nif.GetHeader().GetVersion().IsSSE()) {
									p.hasFaces = false;
									changed++;
								}
					if (!changed) return;
					markPhase(1);
					f0 = saveToString(nif, false, false);
					c.add("as", "skin partitions without a stored face list");
				}
				markPhase(2);
				out += roundTrip(f0, c.done());
				return;
			}
			if (i >= plain) {
				const Derived& d = derived[i - plain];
				JObj c;
				c.add("file", files[d.file]).add("variant", (long long) (100 + i - plain)).add("as", d.label).add("seed", (long long) seed);
				NifFile nif;
				if (nif.Load(samplePath(files[d.file])) != 0) return;
				nif.GetHeader().SetVersion(d.ver);
				markPhase(1);
				std::string f0 = saveToString(nif, false, false);
				markPhase(2);
				out += roundTrip(f0, c.done());
				// Oblivion: the same model as exporters write it that store the tangent space in the geometry data as well (method
				// bits of the data flags + bit 12; the library itself keeps it in an extra data block only): the stored flags of
				// the first triangle data block are patched in the written file
				if (d.ver.IsOB()) {
					NifFile src;
					if (src.Load(samplePath(files[d.file])) != 0) return;
					src.GetHeader().SetVersion(d.ver);
					uint16_t written = 0;
					for (auto& shape : src.GetShapes())
						if (auto data = dynamic_cast<NiTriShapeData*>(shape->GetGeomData())) {
							data->dataFlags |= 0x2540;
							written = uint16_t(data->dataFlags & ~(1 << 12));
						}
					markPhase(1);
					std::string f1 = saveToString(src, false, false);
					auto& hdr = src.GetHeader();
					bool patched = false;
					for (uint32_t id = 0; id < hdr.GetNumBlocks() && !patched; id++) {
						auto data = hdr.GetBlock<NiTriShapeData>(id);
						if (!data) continue;
						std::ostringstream front(std::ios::binary);
						NiOStream os(&front, &hdr);
						hdr.Put(os);
						for (uint32_t b = 0; b < id; b++) hdr.GetBlock<NiObject>(b)->Put(os);
						// group id (4), vertex count (2), keep + compress flags (2), has vertices (1), vertices
						size_t pos = front.str().size() + 4 + 2 + 2 + 1 + 12 * size_t(data->GetNumVertices());
						if (pos + 1 < f1.size() && uint8_t(f1[pos]) == (written & 0xFF) && uint8_t(f1[pos + 1]) == (written >> 8)) {
							f1[pos + 1] = char(uint8_t(f1[pos + 1]) | 0x10);
							patched = true;
						}
					}
					if (!patched) return;
					JObj c2;
					c2.add("file", files[d.file]).add("variant", (long long) (200 + i - plain)).add("as", std::string(d.label) + ", tangent space also inline").add("seed", (long long) seed);
					markPhase(2);
					out += roundTrip(f1, c2.done());
				}
				return;
			}
			size_t k = i / per, v = i % per;
			JObj c;
			c.add("file", files[k]).add("variant", (long long) v).add("seed", (long long) seed);
			std::string f0 = readFile(samplePath(files[k]));
			if (v > 0) {
				NifFile nif;
				if (loadFromString(nif, f0) != 0) return;
				std::mt19937_64 r(seed * 977 + i);
				// variant 1 of files with BSTriShape geometry: the other vertex layouts the format has - full precision
				// positions and one to three extra floats per vertex (no sample file uses them)
				bool layout = false;
				if (v == 1)
					for (auto sh : nif.GetShapes())
						if (auto bs = dynamic_cast<BSTriShape*>(sh)) {
							if (bs->CanChangePrecision()) bs->SetFullPrecision(true);
							if (bs->IsFullPrecision()) {
								size_t ne = 1 + k % 3;
								for (auto& vd : bs->vertData) {
									vd.extra.clear();
									for (size_t e = 0; e < ne; e++) vd.extra.push_back(0.5f + float(e));
								}
								layout = true;
							}
						}
				// variant 2: the optional per-vertex attributes switched the other way (colours and eye data on; for every other
				// file normals and tangents off): further vertex layouts
				if (v == 2)
					for (auto sh : nif.GetShapes())
						if (auto bs = dynamic_cast<BSTriShape*>(sh)) {
							if (dynamic_cast<BSDynamicTriShape*>(sh)) continue;
							if (!bs->HasVertexColors()) bs->SetVertexColors(true);
							if (!bs->HasEyeData()) bs->SetEyeData(true);
							if (k % 2) {
								bs->SetTangents(false);
								bs->SetNormals(false);
							}
							layout = true;
						}
				size_t steps = layout ? 0 : 2 + r() % 6;
				for (size_t s = 0; s < steps; s++) applyGraphOp(nif, jparse(randomGraphOp(nif, r)));
				// a chain of loose named nodes stored child before parent, and a node with consecutive empty child entries
				if (v % 2 == 0) {
					auto& hdr = nif.GetHeader();
					uint32_t prev = NIF_NPOS;
					for (int j = 0; j < 3; j++) {
						auto n = std::make_unique<NiNode>();
						n->name.get() = "Loose" + std::to_string(j);
						if (prev != NIF_NPOS) n->childRefs.AddBlockRef(prev);
						for (int e = 0; e < j + 2; e++) n->childRefs.AddBlockRef(NIF_NPOS);
						prev = hdr.AddBlock(std::move(n));
					}
					if (auto root = nif.GetRootNode())
						for (int e = 0; e < 4; e++) root->childRefs.AddBlockRef(NIF_NPOS);
				}
				nif.LinkGeomData();
				markPhase(1);
				f0 = saveToString(nif, false, false);
			}
			markPhase(2);
			out += roundTrip(f0, c.done());
		},
		[&](size_t i, const std::string& why, FILE* out) {
			int ph = lastCrashPhase();
			if (i >= files.size() * per + derived.size()) {
				size_t j = i - files.size() * per - derived.size();
				fprintf(out, "{\"e\":\"%s\",\"case\":{\"file\":%s,\"variant\":%zu},\"why\":%s,\"phase\":%d}\n", ph < 2 ? "discard" : "crash", J::str(files[j / 2]).s.c_str(), 300 + j,
						J::str(why).s.c_str(), ph);
				return;
			}
			bool der = i >= files.size() * per;
			fprintf(out, "{\"e\":\"%s\",\"case\":{\"file\":%s,\"variant\":%zu},\"why\":%s,\"phase\":%d}\n", (der || (i % per) > 0) && ph < 2 ? "discard" : "crash",
					J::str(files[der ? derived[i - files.size() * per].file : i / per]).s.c_str(), der ? 100 + i - files.size() * per : i % per, J::str(why).s.c_str(), ph);
		});
	printf("{\"files\":%zu,\"cases\":%zu,\"crashes\":%zu}\n", files.size(), files.size() * per, crashes);
	return 0;
}
int cmdTypes(int argc, char** argv) {
	if (argc < 2) return 2;
	Out out(argv[1]);
	for (auto& t : allBlockTypes()) out.line(J::str(t).s);
	return 0;
}

// c01-run <configs.ndjson> <out.ndjson>: the configurations exported by NifWireMC
int cmdRun(int argc, char** argv) {
	if (argc < 3) return 2;
	auto cfgs = readLines(argv[1]);
	std::string outPath = argv[2];
	uint64_t seed = seedFromEnv();
	{ Out trunc(outPath); }
	auto caseOf = [&](size_t k) {
		JV c = jparse(cfgs[k]);
		JObj o;
		o.add("type", c["type"].s).add("ver", c["ver"].s).add("mode", (long long) c["mode"].n).add("boost", (long long) c["boost"].n).add("seed", (long long) seed);
		if (c.has("ov") && !c["ov"].a.empty()) o.raw("ov", toJson(c["ov"]));
		return o.done();
	};
	size_t crashes = runForkedCases(
		cfgs.size(), outPath, 20,
		[&](size_t k, std::string& out) {
			JV c = jparse(cfgs[k]);
			NifFile nif;
			SynthInfo si;
			int boost = (int) c["boost"].n;
			std::vector<std::pair<int, long long>> ov;
			if (c.has("ov"))
				for (auto& e : c["ov"].a) ov.emplace_back((int) e.a[0].n, (long long) e.a[1].n);
			bool made = ov.empty() ? synthFile(nif, c["type"].s, c["ver"].s, (int) c["mode"].n, seed, boost, &si)
								   : synthFileOv(nif, c["type"].s, c["ver"].s, (int) c["mode"].n, seed, ov, &si);
			if (!made) {
				out += "{\"e\":\"discard\",\"case\":" + caseOf(k) + ",\"why\":\"generator budget\"}\n";
				return;
			}
			if (boost >= si.scalars) {
				out += "{\"e\":\"discard\",\"case\":" + caseOf(k) + ",\"why\":\"no such scalar field\"}\n";
				return;
			}
			markPhase(1);
			std::string f0 = saveToString(nif, false, false);
			markPhase(2);
			out += roundTrip(f0, caseOf(k));
			// the same file with the synthesised block's payload replaced by the very bytes the generator served: an input
			// that no build of this library wrote (what f0 holds went through one read and one write already)
			std::string fg = spliceBlock(f0, si.blockId, si.served);
			if (!fg.empty() && fg != f0) {
				std::string cj = caseOf(k);
				cj.insert(cj.size() - 1, ",\"input\":\"generator bytes\"");
				out += roundTrip(fg, cj);
			}
			if (boost < 0) backToFront(nif, caseOf(k), out);
		},
		[&](size_t k, const std::string& why, FILE* out) {
			int ph = lastCrashPhase();
			fprintf(out, "{\"e\":\"%s\",\"case\":%s,\"why\":%s,\"phase\":%d}\n", ph == 0 ? "discard" : "crash", caseOf(k).c_str(),
					J::str(ph == 0 ? "generator input made the reader fail: " + why : why).s.c_str(), ph);
		},
		2048);
	printf("{\"cases\":%zu,\"crashes\":%zu}\n", cfgs.size(), crashes);
	return 0;
}
// c01-probe <out.ndjson> <jobs>: value sweep. For every (type, version) the reader is run on the generator (mode 2) with one
// scalar field at a time set to each small value, and - on top of every setting that changed what the reader asked for -
// with one later field set as well. A setting counts when the sequence of (kind, size) the reader asks for is one not seen
// before for that (type, version): the values that steer the layout of a block (enumerations, flags, "no string"). The
// settings found are extra configurations of the round-trip machine.
// c01-probe1 <type> <version> <field>: what the sweep sees for each value of one field (diagnostic)
int cmdProbe1(int argc, char** argv) {
	if (argc < 4) return 2;
	uint64_t seed = seedFromEnv();
	for (long long x = -1; x <= 21; x++) {
		SynthInfo si;
		si.wantRoundTrip = true;
		NifFile nif;
		std::vector<std::pair<int, long long>> ov;
		if (x >= 0) ov.emplace_back(atoi(argv[3]), x);
		bool ok = false;
		try {
			ok = synthFileOv(nif, argv[1], argv[2], 2, seed, ov, &si);
		}
		catch (...) {
		}
		if (x == -1) {
			printf("scalar kinds:");
			for (auto k : si.scalarKinds) printf(" %d", k);
			printf("\n");
		}
		printf("value %lld ok=%d transfers=%zu served=%zu exact=%llx signature=%llx roundTrip=%d\n", x, ok, si.ncodes, si.served.size(), (unsigned long long) si.exact,
			   (unsigned long long) si.tape, si.roundTrip);
	}
	return 0;
}
Reg rp1("c01-probe1", cmdProbe1);
int cmdProbe(int argc, char** argv) {
	if (argc < 3) return 2;
	std::string outPath = argv[1];
	int jobs = std::max(1, atoi(argv[2]));
	size_t cap = argc > 3 ? strtoul(argv[3], nullptr, 10) : 0; // settings kept per (type, version); 0 = all
	auto types = allBlockTypes();
	uint64_t seed = seedFromEnv();
	std::vector<pid_t> kids;
	for (int j = 0; j < jobs; j++) {
		pid_t pid = fork();
		if (pid == 0) {
			{
			Out out(outPath + "." + std::to_string(j));
			for (size_t ti = size_t(j); ti < types.size(); ti += size_t(jobs)) {
				// each type in its own child: a value may send the reader into a very long loop or out of memory
				std::string buf;
				std::string why;
				std::string part = outPath + "." + std::to_string(j) + ".t";
				int rc = forkRun(
					[&]() -> int {
						Out po(part);
						size_t vi = 0;
						for (auto& kv : synthVersions()) {
							std::set<uint64_t> seen;
							size_t kept = 0;
							auto probe = [&](const std::vector<std::pair<int, long long>>& ov, SynthInfo& si) -> bool {
								NifFile nif;
								bool ok = false;
								si.wantRoundTrip = true;
								try {
									ok = synthFileOv(nif, types[ti], kv.first, 2, seed, ov, &si);
								}
								catch (...) {
									ok = false;
								}
								return ok;
							};
							SynthInfo base;
							if (!probe({}, base)) continue;
							seen.insert(base.tape);
							auto sweepable = [](int kind) { return kind == verif::FK_ENUM || kind == verif::FK_INT || kind == verif::FK_RAW || kind == verif::FK_BOOL || kind == -1 || kind == -3; };
							auto valuesOf = [](int kind) {
								std::vector<long long> v;
								if (kind == -3) v = {-1, 0};
								else if (kind == verif::FK_BOOL) v = {0, 1};
								else
									for (long long x = 0; x <= 21; x++) v.push_back(x);
								return v;
							};
							size_t unstable = 0;
							std::vector<std::vector<std::pair<int, long long>>> cands; // new-layout settings in discovery order
							std::vector<std::vector<std::pair<int, long long>>> selectors; // ... those of a single selector field
							auto emit = [&](const std::vector<std::pair<int, long long>>& ov, const char* why) {
								JArr a;
								for (auto& q : ov) {
									JArr e;
									e.add((long long) q.first).add(q.second);
									a.add(e);
								}
								JObj o;
								o.add("type", types[ti]).add("ver", kv.first).add("mode", 2LL).raw("ov", a.done()).add("why", why);
								po.line(o.done());
							};
							struct Found {
								std::vector<std::pair<int, long long>> ov;
								std::vector<int> kinds;
							};
							std::vector<Found> level1;
							size_t n1 = std::min<size_t>(base.scalarKinds.size(), 40);
							std::set<uint64_t> seenExact;
							seenExact.insert(base.exact);
							for (size_t k = 0; k < n1; k++) {
								if (!sweepable(base.scalarKinds[k])) continue;
								// a selector or a count? With a count the reader asks for more with every step; with a selector
								// (shader type, motor type, ...) every value whose exact sequence of transfers is new counts, also
								// when it is made of the same kinds of pieces as another value's
								std::vector<std::pair<long long, SynthInfo>> got;
								for (auto x : valuesOf(base.scalarKinds[k])) {
									SynthInfo si;
									if (probe({{int(k), x}}, si)) got.emplace_back(x, si);
								}
								bool countLike = false;
								{
									std::map<long long, size_t> len;
									for (auto& g : got) len[g.first] = g.second.ncodes;
									if (len.count(1) && len.count(2) && len.count(3) && len.count(4))
										countLike = len[1] < len[2] && len[2] < len[3] && len[3] < len[4];
								}
								for (auto& g : got) {
									long long x = g.first;
									SynthInfo& si = g.second;
									std::vector<std::pair<int, long long>> ov = {{int(k), x}};
									bool fresh = seen.insert(si.tape).second;
									if (!countLike && seenExact.insert(si.exact).second) fresh = true;
									if (si.roundTrip == 1 && unstable < 40) {
										// what the library wrote for this instance does not re-encode to itself: always a configuration
										unstable++;
										emit(ov, "block-level round trip unstable");
										if (fresh) level1.push_back({ov, si.scalarKinds});
										continue;
									}
									if (!fresh) continue;
									level1.push_back({ov, si.scalarKinds});
									(countLike ? cands : selectors).push_back(ov);
								}
							}
							// second level: one later field on top of each first-level setting
							size_t budget = 4000;
							std::vector<std::vector<std::pair<int, long long>>> selectors2; // selector values on top of a first-level setting
							for (auto& f : level1) {
								size_t n2 = std::min<size_t>(f.kinds.size(), 40);
								for (size_t k = size_t(f.ov[0].first) + 1; k < n2 && budget; k++) {
									if (!sweepable(f.kinds[k])) continue;
									std::vector<std::pair<long long, SynthInfo>> got;
									for (auto x : valuesOf(f.kinds[k])) {
										if (!budget) break;
										budget--;
										SynthInfo si;
										auto ov = f.ov;
										ov.emplace_back(int(k), x);
										if (probe(ov, si)) got.emplace_back(x, si);
									}
									bool countLike = false;
									{
										std::map<long long, size_t> len;
										for (auto& g : got) len[g.first] = g.second.ncodes;
										if (len.count(1) && len.count(2) && len.count(3) && len.count(4))
											countLike = len[1] < len[2] && len[2] < len[3] && len[3] < len[4];
									}
									for (auto& g : got) {
										SynthInfo& si = g.second;
										auto ov = f.ov;
										ov.emplace_back(int(k), g.first);
										bool fresh = seen.insert(si.tape).second;
										bool freshExact = !countLike && seenExact.insert(si.exact).second;
										if (si.roundTrip == 1 && unstable < 40) {
											unstable++;
											emit(ov, "block-level round trip unstable");
											continue;
										}
										if (fresh) cands.push_back(ov);
										else if (freshExact) selectors2.push_back(ov);
									}
								}
							}
							// under a cap: an even spread over the settings (fields and values), starting at a different one in
							// every version so that the versions of a type cover different settings between them
							// (half of the cap goes to the selector values, which come first)
							auto spread = [&](std::vector<std::vector<std::pair<int, long long>>>& v, size_t room) {
								if (!room || v.size() <= room) {
									for (auto& c : v) emit(c, "new layout");
									return v.size();
								}
								size_t stride = (v.size() + room - 1) / room, cnt = 0;
								for (size_t j = vi % stride; j < v.size(); j += stride, cnt++) emit(v[j], "new layout");
								return cnt;
							};
							size_t usedBySel = spread(selectors, cap ? std::max<size_t>(1, cap / 2) : 0);
							// (what the first-level selectors leave of their half goes to selector values of a second field)
							size_t half = cap ? std::max<size_t>(1, cap / 2) : 0;
							// (without a cap: at most 24 of those per type and version - there are very many)
							if (!cap) spread(selectors2, 24);
							else if (usedBySel < half) usedBySel += spread(selectors2, half - usedBySel);
							spread(cands, cap ? (cap > usedBySel ? cap - usedBySel : 1) : 0);
							(void) kept;
							vi++;
						}
						return 0;
					},
					120, why, 2048);
				(void) rc;
				// whatever the child managed to write (complete lines only) counts
				std::string got = readFile(part);
				size_t nl = got.rfind('\n');
				if (nl != std::string::npos) {
					got.resize(nl + 1);
					fwrite(got.data(), 1, got.size(), out.f);
				}
				unlink(part.c_str());
			}
			}
			_exit(0);
		}
		kids.push_back(pid);
	}
	for (auto p : kids) {
		int st = 0;
		waitpid(p, &st, 0);
	}
	Out out(outPath);
	size_t n = 0;
	for (int j = 0; j < jobs; j++) {
		std::string part = outPath + "." + std::to_string(j);
		for (auto& l : readLines(part)) {
			out.line(l);
			n++;
		}
		unlink(part.c_str());
	}
	printf("{\"settings\":%zu}\n", n);
	return 0;
}
Reg r0("synth-types", cmdTypes);
Reg r4("c01-probe", cmdProbe);
Reg r3("c01-run", cmdRun);
Reg r1("c01-synth", cmdSynth);
Reg r2("c01-samples", cmdSamples);
} // namespace
