// C01 (also feeds C07): load/save round trips of sample and synthesised files.
//   c01-synth <out.ndjson> <versionsCsv|all> <modesCsv> <typeStride> <typeOffset> <boost:0|1>
//       for each type x version x mode: synthesise, save raw (f0), load, save raw (F1), load, save raw (F2), save raw (F3);
//       default-save chain G1,G2,G3 by repeated load-then-save. Abstract files are logged for the round-trip machine.
//   c01-samples <out.ndjson>
#include "battery.hpp"
#include "hooks.hpp"
#include "synth.hpp"

using namespace nifly;
using namespace vh;

namespace {
// abstract file with cids *not* masked (byte-level fixed point is the claim)
// abstract file; the model that wrote it supplies the reference / string-index offsets
std::string absFile(const std::string& bytes, NifFile& writer, ContentIds& ids) { return fileAbstract(bytes, &writer, ids); }

// The round trip of one input file f0. Returns one "rt" event.
std::string roundTrip(const std::string& f0, const std::string& caseJson) {
	ContentIds ids;
	JObj ev;
	ev.add("e", "rt").raw("case", caseJson);
	NifFile a;
	int rc0 = loadFromString(a, f0);
	ev.add("load0", rc0);
	if (rc0 != 0) return ev.done() + "\n";
	ev.add("unk", a.HasUnknown());
	std::string F1 = saveToString(a, false, false);
	NifFile b;
	int rc1 = loadFromString(b, F1);
	ev.add("load1", rc1);
	if (rc1 != 0) return ev.done() + "\n";
	std::string F2 = saveToString(b, false, false);
	std::string aF2 = absFile(F2, b, ids);
	std::string F3 = saveToString(b, false, false);
	ev.raw("F1", absFile(F1, a, ids)).raw("F2", aF2).raw("F3", absFile(F3, b, ids));
	ev.add("F1eqF2", F1 == F2).add("F2eqF3", F2 == F3);
	// default save: repeat load-then-save
	std::string g = f0, prev;
	JArr gs;
	JArr geq;
	int grc = 0;
	for (int round = 1; round <= 4 && grc == 0; round++) {
		NifFile c;
		grc = loadFromString(c, g);
		if (grc != 0) break;
		prev = g;
		g = saveToString(c, true, true);
		gs.raw(absFile(g, c, ids));
		geq.add(J::boolean(round > 1 && g == prev));
	}
	ev.add("gload", grc).raw("G", gs.done()).raw("Geq", geq.done());
	return ev.done() + "\n";
}

int cmdSynth(int argc, char** argv) {
	if (argc < 7) return 2;
	std::string outPath = argv[1];
	std::vector<std::string> versions, modes;
	{
		std::stringstream ss(argv[2]);
		std::string v;
		while (std::getline(ss, v, ',')) versions.push_back(v);
		if (versions.size() == 1 && versions[0] == "all") {
			versions.clear();
			for (auto& kv : synthVersions()) versions.push_back(kv.first);
		}
		std::stringstream ms(argv[3]);
		while (std::getline(ms, v, ',')) modes.push_back(v);
	}
	size_t stride = strtoul(argv[4], nullptr, 10), offset = strtoul(argv[5], nullptr, 10);
	bool boost = atoi(argv[6]) != 0;
	auto types = allBlockTypes();
	struct Case {
		std::string type, ver;
		int mode;
		int boostAt;
	};
	std::vector<Case> cases;
	uint64_t seed = seedFromEnv();
	const char* onlyType = getenv("NVH_ONLY_TYPE");
	const char* onlyBoost = getenv("NVH_ONLY_BOOST");
	for (size_t ti = 0; ti < types.size(); ti++) {
		if (stride > 1 && ti % stride != offset % stride) continue;
		if (onlyType && types[ti] != onlyType) continue;
		if (onlyType && onlyBoost) {
			for (auto& v : versions)
				for (auto& m : modes) cases.push_back({types[ti], v, atoi(m.c_str()), atoi(onlyBoost)});
			continue;
		}
		for (auto& v : versions)
			for (auto& m : modes) {
				cases.push_back({types[ti], v, atoi(m.c_str()), -1});
				if (boost)
					for (int b = 0; b < 24; b += 1) cases.push_back({types[ti], v, atoi(m.c_str()), b});
			}
	}
	{ Out trunc(outPath); }
	auto caseOf = [&](size_t k) {
		JObj c;
		c.add("type", cases[k].type).add("ver", cases[k].ver).add("mode", cases[k].mode).add("boost", cases[k].boostAt).add("seed", (long long) seed);
		return c.done();
	};
	size_t crashes = runForkedCases(
		cases.size(), outPath, 20,
		[&](size_t k, std::string& out) {
			NifFile nif;
			SynthInfo si;
			if (!synthFile(nif, cases[k].type, cases[k].ver, cases[k].mode, seed, cases[k].boostAt, &si)) {
				out += "{\"e\":\"discard\",\"case\":" + caseOf(k) + ",\"why\":\"generator budget\"}\n";
				return;
			}
			if (cases[k].boostAt >= si.scalars) return; // no such scalar field
			markPhase(1); // from here on the library only handles its own model / its own output
			std::string f0 = saveToString(nif, false, false);
			markPhase(2);
			out += roundTrip(f0, caseOf(k));
		},
		[&](size_t k, const std::string& why, FILE* out) {
			// a crash / hang / OOM while handling a boosted instance that the library itself would reject is outside the
			// quantifier only if it happens before the first file exists; the event says where it died
			int ph = lastCrashPhase();
			fprintf(out, "{\"e\":\"%s\",\"case\":%s,\"why\":%s,\"phase\":%d}\n", ph == 0 ? "discard" : "crash", caseOf(k).c_str(),
					J::str(ph == 0 ? "generator input made the reader fail: " + why : why).s.c_str(), ph);
		},
		2048);
	printf("{\"cases\":%zu,\"types\":%zu,\"crashes\":%zu}\n", cases.size(), types.size(), crashes);
	return 0;
}

// c01-samples <out.ndjson> [editVariants]: the sample files, and files the library writes after seeded block-graph edits
// of them (appended nodes with empty child entries, loose blocks and chains of loose blocks, reorderings, deletions)
int cmdSamples(int argc, char** argv) {
	if (argc < 2) return 2;
	std::string outPath = argv[1];
	size_t variants = argc > 2 ? strtoul(argv[2], nullptr, 10) : 0;
	auto files = sampleFiles();
	uint64_t seed = seedFromEnv();
	{ Out trunc(outPath); }
	size_t per = 1 + variants;
	size_t crashes = runForkedCases(
		files.size() * per, outPath, 120,
		[&](size_t i, std::string& out) {
			size_t k = i / per, v = i % per;
			JObj c;
			c.add("file", files[k]).add("variant", (long long) v).add("seed", (long long) seed);
			std::string f0 = readFile(samplePath(files[k]));
			if (v > 0) {
				NifFile nif;
				if (loadFromString(nif, f0) != 0) return;
				std::mt19937_64 r(seed * 977 + i);
				size_t steps = 2 + r() % 6;
				for (size_t s = 0; s < steps; s++) applyGraphOp(nif, jparse(randomGraphOp(nif, r)));
				// a chain of loose named nodes stored child before parent, and a node with consecutive empty child entries
				if (v % 2 == 0) {
					auto& hdr = nif.GetHeader();
					uint32_t prev = NIF_NPOS;
					for (int j = 0; j < 3; j++) {
						auto n = std::make_unique<NiNode>();
						n->name.get() = "Loose" + std::to_string(j);
						if (prev != NIF_NPOS) n->childRefs.AddBlockRef(prev);
						for (int e = 0; e < j + 2; e++) n->childRefs.AddBlockRef(NIF_NPOS);
						prev = hdr.AddBlock(std::move(n));
					}
					if (auto root = nif.GetRootNode())
						for (int e = 0; e < 4; e++) root->childRefs.AddBlockRef(NIF_NPOS);
				}
				nif.LinkGeomData();
				markPhase(1);
				f0 = saveToString(nif, false, false);
			}
			markPhase(2);
			out += roundTrip(f0, c.done());
		},
		[&](size_t i, const std::string& why, FILE* out) {
			int ph = lastCrashPhase();
			fprintf(out, "{\"e\":\"%s\",\"case\":{\"file\":%s,\"variant\":%zu},\"why\":%s,\"phase\":%d}\n", (i % per) > 0 && ph < 2 ? "discard" : "crash",
					J::str(files[i / per]).s.c_str(), i % per, J::str(why).s.c_str(), ph);
		});
	printf("{\"files\":%zu,\"cases\":%zu,\"crashes\":%zu}\n", files.size(), files.size() * per, crashes);
	return 0;
}
int cmdTypes(int argc, char** argv) {
	if (argc < 2) return 2;
	Out out(argv[1]);
	for (auto& t : allBlockTypes()) out.line(J::str(t).s);
	return 0;
}

// c01-run <configs.ndjson> <out.ndjson>: the configurations exported by NifWireMC
int cmdRun(int argc, char** argv) {
	if (argc < 3) return 2;
	auto cfgs = readLines(argv[1]);
	std::string outPath = argv[2];
	uint64_t seed = seedFromEnv();
	{ Out trunc(outPath); }
	auto caseOf = [&](size_t k) {
		JV c = jparse(cfgs[k]);
		JObj o;
		o.add("type", c["type"].s).add("ver", c["ver"].s).add("mode", (long long) c["mode"].n).add("boost", (long long) c["boost"].n).add("seed", (long long) seed);
		return o.done();
	};
	size_t crashes = runForkedCases(
		cfgs.size(), outPath, 20,
		[&](size_t k, std::string& out) {
			JV c = jparse(cfgs[k]);
			NifFile nif;
			SynthInfo si;
			int boost = (int) c["boost"].n;
			if (!synthFile(nif, c["type"].s, c["ver"].s, (int) c["mode"].n, seed, boost, &si)) {
				out += "{\"e\":\"discard\",\"case\":" + caseOf(k) + ",\"why\":\"generator budget\"}\n";
				return;
			}
			if (boost >= si.scalars) {
				out += "{\"e\":\"discard\",\"case\":" + caseOf(k) + ",\"why\":\"no such scalar field\"}\n";
				return;
			}
			markPhase(1);
			std::string f0 = saveToString(nif, false, false);
			markPhase(2);
			out += roundTrip(f0, caseOf(k));
		},
		[&](size_t k, const std::string& why, FILE* out) {
			int ph = lastCrashPhase();
			fprintf(out, "{\"e\":\"%s\",\"case\":%s,\"why\":%s,\"phase\":%d}\n", ph == 0 ? "discard" : "crash", caseOf(k).c_str(),
					J::str(ph == 0 ? "generator input made the reader fail: " + why : why).s.c_str(), ph);
		},
		2048);
	printf("{\"cases\":%zu,\"crashes\":%zu}\n", cfgs.size(), crashes);
	return 0;
}
Reg r0("synth-types", cmdTypes);
Reg r3("c01-run", cmdRun);
Reg r1("c01-synth", cmdSynth);
Reg r2("c01-samples", cmdSamples);
} // namespace
