// C07: saved header tables describe the written file exactly.
//   c07-edits <out.ndjson> <steps> <synthStride>
//       sample files and synthesised files after seeded edit sequences (block-graph edits, vertex deletion, LE<->SE
//       conversion, shape cloning, fresh blocks whose size entry starts at 0, same-type replacement), saved raw and
//       with the default options; each written file is logged as the independent reader sees it.
#include "hooks.hpp"
#include "synth.hpp"

using namespace nifly;
using namespace vh;

namespace {
void meshEdit(NifFile& nif, std::mt19937_64& r, std::string& what) {
	auto shapes = nif.GetShapes();
	int k = int(r() % 6);
	if (shapes.empty()) k = 5;
	switch (k) {
		case 0: {
			auto s = shapes[r() % shapes.size()];
			uint16_t n = s->GetNumVertices();
			std::vector<uint16_t> idx;
			for (uint16_t i = 0; i < n; i++)
				if (r() % 7 == 0) idx.push_back(i);
			if (idx.empty() && n > 0) idx.push_back(uint16_t(r() % n));
			nif.DeleteVertsForShape(s, idx);
			what = "DeleteVerts";
			break;
		}
		case 1: {
			auto& v = nif.GetHeader().GetVersion();
			if (v.IsSK() || v.IsSSE()) {
				OptOptions o;
				o.targetVersion = v.IsSK() ? NiVersion::getSSE() : NiVersion::getSK();
				nif.OptimizeFor(o);
				what = "OptimizeFor";
			}
			else
				what = "none";
			break;
		}
		case 2: {
			auto s = shapes[r() % shapes.size()];
			nif.CloneShape(s, s->name.get() + "_c" + std::to_string(r() % 10));
			what = "CloneShape";
			break;
		}
		case 3: {
			auto s = shapes[r() % shapes.size()];
			nif.DeleteShape(s);
			what = "DeleteShape";
			break;
		}
		case 4: {
			// same-type replacement of a block by its clone
			auto& hdr = nif.GetHeader();
			uint32_t i = uint32_t(r() % hdr.GetNumBlocks());
			auto b = hdr.GetBlock<NiObject>(i);
			if (b) hdr.ReplaceBlock(i, b->Clone());
			nif.LinkGeomData();
			what = "ReplaceByClone";
			break;
		}
		default: {
			MatTransform t;
			nif.AddNode("n" + std::to_string(r() % 100), t);
			auto ed = std::make_unique<NiStringExtraData>();
			ed->name.get() = "x" + std::to_string(r() % 5);
			ed->stringData.get() = "value";
			if (auto root = nif.GetRootNode()) nif.AssignExtraData(root, std::move(ed));
			what = "AddNode+ExtraData";
		}
	}
}

void fileEvent(std::string& out, const std::string& caseJson, const char* how, NifFile& nif, const std::string& bytes, ContentIds& ids, const std::string& ops,
			   NifFile* locator = nullptr) {
	out += "{\"e\":\"file\",\"case\":" + caseJson + ",\"how\":\"" + how + "\",\"ops\":" + ops + ",\"unk\":" + (nif.HasUnknown() ? "true" : "false")
		   + ",\"f\":" + fileAbstract(bytes, &nif, ids, locator) + "}\n";
}

void runOne(NifFile& nif, uint64_t seed, size_t steps, const std::string& caseJson, std::string& out) {
	std::mt19937_64 r(seed);
	ContentIds ids;
	JArr ops;
	for (size_t s = 0; s < steps; s++) {
		markPhase(2);
		if (r() % 2) {
			std::string act = randomGraphOp(nif, r);
			applyGraphOp(nif, jparse(act));
			nif.LinkGeomData();
			ops.raw(act);
		}
		else {
			std::string what;
			meshEdit(nif, r, what);
			ops.add(what);
		}
		if (s % 2 == 1 || s + 1 == steps) {
			markPhase(3); // from here on: saving and reading back what was written (a crash is no longer an odd edit's)
			std::string raw = saveToString(nif, false, false);
			fileEvent(out, caseJson, "raw", nif, raw, ids, ops.done());
		}
	}
	markPhase(3);
	std::string def = saveToString(nif, true, true);
	fileEvent(out, caseJson, "default", nif, def, ids, ops.done());
	markPhase(2);
}

int cmdEdits(int argc, char** argv) {
	if (argc < 4) return 2;
	std::string outPath = argv[1];
	size_t steps = strtoul(argv[2], nullptr, 10), stride = strtoul(argv[3], nullptr, 10);
	auto files = sampleFiles();
	auto types = allBlockTypes();
	uint64_t seed = seedFromEnv();
	struct Case {
		std::string file, type, ver;
		int mode;
	};
	std::vector<Case> cases;
	for (auto& f : files) cases.push_back({f, "", "", 0});
	const char* vers[] = {"OB", "FO3", "SK", "SSE", "FO4", "FO76", "SF"};
	for (size_t ti = 0; ti < types.size(); ti++)
		if (stride <= 1 || ti % stride == seed % stride) cases.push_back({"", types[ti], vers[(ti + seed) % 7], int((ti + seed) % 3)});
	{ Out trunc(outPath); }
	auto caseOf = [&](size_t k) {
		JObj c;
		if (!cases[k].file.empty()) c.add("file", cases[k].file);
		else c.add("type", cases[k].type).add("ver", cases[k].ver).add("mode", cases[k].mode);
		c.add("seed", (long long) seed);
		return c.done();
	};
	size_t crashes = runForkedCases(
		cases.size(), outPath, 60,
		[&](size_t k, std::string& out) {
			NifFile nif;
			if (!cases[k].file.empty()) {
				if (nif.Load(samplePath(cases[k].file)) != 0) return;
			}
			else {
				NifFile gen;
				if (!synthFile(gen, cases[k].type, cases[k].ver, cases[k].mode, seed)) return;
				markPhase(1);
				// go through the loader so that the model is one the library accepts
				if (loadFromString(nif, saveToString(gen, false, false)) != 0) return;
			}
			markPhase(2);
			runOne(nif, seed * 31 + k, steps, caseOf(k), out);
			if (cases[k].file.empty()) return;
			// the same object is used again for other files and versions (with and without a size table) and for a new model
			{
				ContentIds ids;
				const std::string others[] = {files[(k + 1) % files.size()], "TestNifFile_Skinned_OB.nif", files[(k + 7) % files.size()]};
				for (auto& o : others) {
					if (nif.Load(samplePath(o)) != 0) continue;
					JArr ops;
					ops.add("Load " + o + " into the object used before");
					fileEvent(out, caseOf(k), "raw", nif, saveToString(nif, false, false), ids, ops.done());
					fileEvent(out, caseOf(k), "default", nif, saveToString(nif, true, true), ids, ops.done());
				}
				const char* cv[] = {"OB", "SSE", "FO3", "FO4"};
				for (auto v : cv) {
					nif.Create(versionByName(v));
					MatTransform t;
					nif.AddNode("created", t);
					JArr ops;
					ops.add(std::string("Create ") + v + " in the object used before");
					fileEvent(out, caseOf(k), "raw", nif, saveToString(nif, false, false), ids, ops.done());
				}
			}
			// the file is written behind other content of the stream (a model inside a container), and copies of a model
			// (copy constructor, assignment into an object that holds another model) are saved
			{
				ContentIds ids;
				NifFile at;
				if (at.Load(samplePath(cases[k].file)) == 0) {
					const size_t offs[] = {16, 4099};
					for (size_t pre : offs)
						for (int opt = 0; opt < 2; opt++) {
							std::ostringstream os(std::ios::binary);
							std::string prefix(pre, 'P');
							os.write(prefix.data(), std::streamsize(pre));
							NifSaveOptions so;
							so.optimize = so.sortBlocks = opt != 0;
							markPhase(3);
							at.Save(os, so);
							std::string all = os.str();
							JArr ops;
							ops.add("saved at stream offset " + std::to_string(pre) + (all.compare(0, pre, prefix) == 0 ? "" : " (the bytes in front were overwritten)"));
							fileEvent(out, caseOf(k), opt ? "default" : "raw", at, all.size() >= pre ? all.substr(pre) : std::string(), ids, ops.done());
						}
					{
						NifFile made;
						made.Create(at.GetHeader().GetVersion());
						MatTransform t;
						made.AddNode("created", t);
						std::ostringstream os(std::ios::binary);
						os.write("0123456789", 10);
						made.Save(os, NifSaveOptions());
						JArr ops;
						ops.add("created model saved at stream offset 10");
						fileEvent(out, caseOf(k), "default", made, os.str().substr(10), ids, ops.done());
					}
					// export information of the lengths around the one-byte length limit of its three members
					for (size_t len : {size_t(253), size_t(254), size_t(255), size_t(256), size_t(509), size_t(700)}) {
						NifFile ex(at);
						std::string info;
						for (size_t q = 0; q < len; q++) info.push_back(char('a' + q % 26));
						ex.GetHeader().SetExportInfo(info);
						JArr ops;
						ops.add("SetExportInfo with " + std::to_string(len) + " characters");
						fileEvent(out, caseOf(k), "raw", ex, saveToString(ex, false, false), ids, ops.done());
					}
					NifFile viaCtor(at);
					NifFile viaAssign;
					viaAssign.Load(samplePath(files[(k + 3) % files.size()]));
					viaAssign = at;
					NifFile* copies[] = {&viaCtor, &viaAssign};
					for (int c = 0; c < 2; c++) {
						JArr ops;
						ops.add(c ? "assigned into an object that held another model" : "copy-constructed");
						fileEvent(out, caseOf(k), "raw", *copies[c], saveToString(*copies[c], false, false), ids, ops.done());
						fileEvent(out, caseOf(k), "default", *copies[c], saveToString(*copies[c], true, true), ids, ops.done());
					}
				}
				markPhase(2);
			}
			// files in which one block type, and all of them, are unknown to the library
			{
				std::string bytes = readFile(samplePath(cases[k].file));
				HeaderInfo h = parseHeader(bytes);
				if (h.ok && h.hasSizes && !h.types.empty()) {
					std::vector<std::vector<std::string>> sets = {{h.types[(seed + k) % h.types.size()]}, {h.types[(seed + k + 3) % h.types.size()]}, h.types};
					NifFile known; // the same file under its real type names: tells where string indices sit inside opaque blocks
					bool haveKnown = loadFromString(known, bytes) == 0;
					NifFile* loc = haveKnown ? &known : nullptr;
					for (auto& U : sets) {
						std::string ub = bytes;
						if (!relabelTypes(ub, U)) continue;
						NifFile un;
						if (loadFromString(un, ub) != 0) continue;
						ContentIds ids;
						JArr ops;
						ops.add("types unknown: " + std::to_string(U.size()) + " (" + U[0] + ")");
						fileEvent(out, caseOf(k), "raw", un, saveToString(un, false, false), ids, ops.done(), loc);
						fileEvent(out, caseOf(k), "default", un, saveToString(un, true, true), ids, ops.done(), loc);
						// copies of it: a fresh object, and objects that held another model before
						{
							NifFile viaCtor(un);
							NifFile viaAssign;
							viaAssign.Load(samplePath(files[(k + 5) % files.size()]));
							viaAssign = un;
							NifFile viaCopyFrom;
							viaCopyFrom.Create(un.GetHeader().GetVersion());
							viaCopyFrom.CopyFrom(un);
							NifFile* copies[] = {&viaCtor, &viaAssign, &viaCopyFrom};
							const char* hows[] = {"copy-constructed", "assigned into an object that held another model", "CopyFrom into a created model"};
							for (int c = 0; c < 3; c++) {
								JArr ops2;
								ops2.add("types unknown: " + std::to_string(U.size()) + " (" + U[0] + "), " + hows[c]);
								fileEvent(out, caseOf(k), "raw", *copies[c], saveToString(*copies[c], false, false), ids, ops2.done(), loc);
								fileEvent(out, caseOf(k), "default", *copies[c], saveToString(*copies[c], true, true), ids, ops2.done(), loc);
							}
						}
						// a known block gets a longer name than any string of the table
						if (auto root = un.GetRootNode()) {
							root->name.get() = "a name that is longer than the strings of the unknown blocks, by a fair margin";
							fileEvent(out, caseOf(k), "default", un, saveToString(un, true, true), ids, ops.done(), loc);
						}
					}
				}
			}
		},
		[&](size_t k, const std::string& why, FILE* out) {
			// crashes of edit operations on odd models are not C07's concern (C09/C12/C14/C15 own them): recorded as discards;
			// a crash while saving a sample file's model or reading the written tables back is
			bool saving = lastCrashPhase() == 3 && !cases[k].file.empty();
			fprintf(out, "{\"e\":\"%s\",\"case\":%s,\"why\":%s,\"phase\":%d}\n", saving ? "crash" : "discard", caseOf(k).c_str(), J::str(why).s.c_str(), lastCrashPhase());
		},
		4096);
	printf("{\"cases\":%zu,\"crashes\":%zu}\n", cases.size(), crashes);
	return 0;
}
Reg r1("c07-edits", cmdEdits);

// ---- the header string table as a machine of its own (StringTable.tla): cases of StringTableMC on a real NiHeader
// state: the table, (index, text) of every string reference in block order, the maximum length the header would write
std::string stringState(NifFile& nif, const std::vector<NiNode*>& nodes, bool old) {
	auto& hdr = nif.GetHeader();
	JArr tab, refs;
	for (uint32_t i = 0; i < hdr.GetStringCount(); i++) tab.add(hdr.GetStringById(i));
	for (auto n : nodes) {
		JObj r;
		uint32_t ix = n->name.GetIndex();
		r.add("idx", ix == NIF_NPOS ? -1LL : (long long) std::min<uint32_t>(ix, 0x7ffffff0u)).add("str", n->name.get());
		refs.add(r);
	}
	long long maxLen = 0;
	if (!old) {
		// (the stored maximum has no accessor: it is read from the header as it would be written)
		std::ostringstream os(std::ios::binary);
		NiOStream ns(&os, &hdr);
		hdr.Put(ns);
		HeaderInfo h = parseHeader(os.str() + std::string(64, '\0'));
		maxLen = h.ok ? (long long) h.maxLen : -1;
	}
	JObj st;
	st.add("tab", tab).add("refs", refs).add("maxLen", maxLen);
	return st.done();
}

int cmdStrings(int argc, char** argv) {
	if (argc < 3) return 2;
	auto lines = readLines(argv[1]);
	std::string outPath = argv[2];
	{ Out trunc(outPath); }
	size_t chunk = 500, nchunks = (lines.size() + chunk - 1) / chunk;
	size_t crashes = runForkedCases(
		nchunks, outPath, 120,
		[&](size_t ci, std::string& out) {
			for (size_t k = ci * chunk; k < std::min(lines.size(), (ci + 1) * chunk); k++) {
				JV rec = jparse(lines[k]);
				const JV& c = rec["c"];
				bool old = c["old"].b;
				NifFile nif;
				nif.Create(old ? NiVersion::getOB() : NiVersion::getSSE());
				auto& hdr = nif.GetHeader();
				std::vector<NiNode*> nodes;
				nodes.push_back(nif.GetRootNode());
				for (size_t r = 1; r < c["idx"].a.size(); r++) {
					auto n = std::make_unique<NiNode>();
					NiNode* raw = n.get();
					hdr.AddBlock(std::move(n));
					nodes.push_back(raw);
				}
				if (!nodes[0]) continue;
				// the file as stored: table (texts may repeat) and indices; the references hold no text yet
				hdr.ClearStrings();
				for (size_t t = 0; t < c["tab"].a.size(); t++) hdr.AddOrFindStringId("#placeholder" + std::to_string(t), true);
				for (size_t t = 0; t < c["tab"].a.size(); t++) hdr.SetStringById(uint32_t(t), c["tab"].a[t].s);
				hdr.UpdateMaxStringLength();
				for (size_t r = 0; r < nodes.size(); r++) {
					long long ix = (long long) c["idx"].a[r].n;
					nodes[r]->name.SetIndex(ix < 0 ? NIF_NPOS : uint32_t(ix));
					nodes[r]->name.get().clear();
				}
				hdr.FillStringRefs();
				JObj ev;
				ev.add("e", "strings").raw("c", toJson(c)).raw("start", stringState(nif, nodes, old));
				JArr states, again;
				for (auto& op : c["ops"].a) {
					const std::string kd = op["k"].s;
					if (kd == "set") nodes[size_t(op["r"].n) - 1]->name.get() = op["s"].s;
					else if (kd == "new") {
						nodes[size_t(op["r"].n) - 1]->name.SetIndex(NIF_NPOS);
						nodes[size_t(op["r"].n) - 1]->name.get() = op["s"].s;
					}
					else if (kd == "add") hdr.AddOrFindStringId(op["s"].s, op["e"].b);
					else if (kd == "save") hdr.UpdateHeaderStrings(op["unk"].b);
					else if (kd == "fill") hdr.FillStringRefs();
					std::string st = stringState(nif, nodes, old);
					states.raw(st);
					if (kd == "save") {
						// a second save in a row, on a copy of the model (the history goes on from the first)
						NifFile copy(nif);
						std::vector<NiNode*> cn;
						for (auto n : nodes) cn.push_back(copy.GetHeader().GetBlock<NiNode>(nif.GetBlockID(n)));
						copy.GetHeader().UpdateHeaderStrings(op["unk"].b);
						again.raw(stringState(copy, cn, old));
					}
					else
						again.raw(st);
				}
				ev.raw("states", states.done()).raw("again", again.done());
				out += ev.done() + "\n";
			}
		},
		[&](size_t ci, const std::string& why, FILE* out) { fprintf(out, "{\"e\":\"crash\",\"chunk\":%zu,\"why\":%s}\n", ci, J::str(why).s.c_str()); });
	printf("{\"cases\":%zu,\"crashes\":%zu}\n", lines.size(), crashes);
	return 0;
}
Reg r2("c07-strings", cmdStrings);

// ---- a NifFile object as a container (NifObj.tla): histories of load / create / add / assign / CopyFrom / clear / save on one
// object X with a donor Y; at every save a fresh object with the same content (canonical construction) must write the same
int cmdObjects(int argc, char** argv) {
	if (argc < 3) return 2;
	auto lines = readLines(argv[1]);
	std::string outPath = argv[2];
	{ Out trunc(outPath); }
	const std::string fileA = readFile(samplePath("TestNifFile_Static_SE.nif")), fileB = readFile(samplePath("TestNifFile_Skinned_OB.nif"));
	std::string fileU = fileA;
	{
		HeaderInfo h = parseHeader(fileU);
		if (!h.ok || h.types.size() < 2 || !relabelTypes(fileU, {h.types[1]})) return 3;
	}
	auto bytesOf = [&](const std::string& base) -> const std::string& { return base == "A" ? fileA : (base == "B" ? fileB : fileU); };
	// the canonical construction of a content
	auto construct = [&](NifFile& nif, const JV& content) -> bool {
		const std::string base = content["base"].s;
		if (base == "none") return false;
		if (base.compare(0, 3, "new") == 0) nif.Create(versionByName(base.substr(3)));
		else if (loadFromString(nif, bytesOf(base)) != 0) return false;
		MatTransform t;
		for (long long q = 0; q < (long long) content["n"].n; q++) nif.AddNode("n" + std::to_string(q), t);
		return true;
	};
	size_t chunk = 200, nchunks = (lines.size() + chunk - 1) / chunk;
	size_t crashes = runForkedCases(
		nchunks, outPath, 300,
		[&](size_t ci, std::string& out) {
			for (size_t k = ci * chunk; k < std::min(lines.size(), (ci + 1) * chunk); k++) {
				JV rec = jparse(lines[k]);
				NifFile X, Y;
				if (loadFromString(Y, fileB) != 0) continue;
				const auto& ops = rec["ops"].a;
				for (size_t j = 0; j < ops.size(); j++) {
					const std::string kd = ops[j]["k"].s;
					const JV& content = rec["xs"].a[j];
					MatTransform t;
					if (kd == "load") loadFromString(X, bytesOf(ops[j]["f"].s));
					else if (kd == "create") X.Create(versionByName(ops[j]["v"].s));
					else if (kd == "add") {
						if (X.IsValid()) X.AddNode("n" + std::to_string((long long) content["n"].n - 1), t);
					}
					else if (kd == "assign") X = Y;
					else if (kd == "copyfrom") X.CopyFrom(Y);
					else if (kd == "clear") X.Clear();
					else if (kd == "donor") loadFromString(Y, bytesOf(ops[j]["f"].s));
					else if (kd == "save") {
						ContentIds ids;
						std::string got = saveToString(X, false, false);
						NifFile fresh;
						bool built = construct(fresh, content);
						std::string want = built ? saveToString(fresh, false, false) : std::string();
						JObj ev;
						ev.add("e", "objsave").add("case", (long long) k).add("step", (long long) j).raw("ops", toJson(rec["ops"])).raw("content", toJson(content));
						ev.add("built", built).add("same", got == want).add("unk", X.HasUnknown()).add("freshUnk", fresh.HasUnknown());
						size_t d = 0;
						while (d < got.size() && d < want.size() && got[d] == want[d]) d++;
						ev.add("firstDiff", got == want ? -1LL : (long long) d).add("len", (long long) got.size()).add("wantLen", (long long) want.size());
						// the last save of the history: the default save of both too
						if (j + 1 == ops.size() && built) {
							NifFile xc(X), fc(fresh);
							ev.add("sameDefault", saveToString(xc, true, true) == saveToString(fc, true, true));
						}
						else
							ev.add("sameDefault", true);
						ev.raw("f", fileAbstract(got, &X, ids));
						out += ev.done() + "\n";
					}
				}
			}
		},
		[&](size_t ci, const std::string& why, FILE* out) { fprintf(out, "{\"e\":\"crash\",\"chunk\":%zu,\"why\":%s}\n", ci, J::str(why).s.c_str()); });
	printf("{\"cases\":%zu,\"crashes\":%zu}\n", lines.size(), crashes);
	return 0;
}
Reg r3("c07-objects", cmdObjects);
} // namespace
