// C18: index-remapping and strip utilities vs. the IndexOps specification.
//   c18-replay <cases.ndjson> <out.ndjson> <sampleEvery>   replay TLC-enumerated calls on the real templates
//   c18-random <out.ndjson> <count>                         random larger calls, logged for trace validation
#include "common.hpp"
#include "NifUtil.hpp"
#include <map>
#include <unordered_map>

using namespace nifly;
using namespace vh;

namespace {
using LL = long long;
using VI = std::vector<LL>;

template<typename T>
std::vector<T> conv(const VI& v) {
	std::vector<T> r;
	for (auto x : v) r.push_back(static_cast<T>(x));
	return r;
}

struct Rec {
	std::string fn, ty;
	JV c;         // the call as TLC printed it (or as generated)
	std::string out; // JSON fragment: fields of the implementation's result
};

// ---- implementations of each family on the real templates, returning the result as JSON object fields
template<typename IT, typename Elem>
std::string doErase(LL n, const VI& I, std::function<Elem(LL)> mk, std::function<LL(const Elem&)> un) {
	std::vector<Elem> v;
	for (LL i = 0; i < n; i++) v.push_back(mk(i));
	auto idx = conv<IT>(I);
	EraseVectorIndices(v, idx);
	JArr a;
	for (auto& e : v) a.add(un(e));
	return "\"out\":" + a.done();
}

template<typename IT, typename Elem>
std::string doInsert(LL n, const VI& I, std::function<Elem(LL)> mk, std::function<LL(const Elem&)> un) {
	std::vector<Elem> v;
	for (LL i = 0; i < n; i++) v.push_back(mk(i));
	auto idx = conv<IT>(I);
	InsertVectorIndices(v, idx);
	// slots at I are unspecified: report them as -7 when the vector grew
	bool grew = v.size() == size_t(n) + I.size() && !I.empty();
	JArr a;
	for (size_t k = 0; k < v.size(); k++) {
		bool hole = grew && std::find(I.begin(), I.end(), LL(k)) != I.end();
		a.add(hole ? LL(-7) : un(v[k]));
	}
	return "\"out\":" + a.done();
}

template<typename IT1, typename IT2>
std::string doCollapse(LL n, const VI& I) {
	auto idx = conv<IT1>(I);
	std::vector<int> m = GenerateIndexCollapseMap(idx, static_cast<IT2>(n));
	return "\"out\":" + jints(m).s;
}

template<typename IT1, typename IT2>
std::string doExpand(LL n, const VI& I) {
	auto idx = conv<IT1>(I);
	std::vector<int> m = GenerateIndexExpandMap(idx, static_cast<IT2>(n));
	return "\"out\":" + jints(m).s;
}

std::vector<Triangle> trisOf(const JV& T) {
	std::vector<Triangle> t;
	for (auto& x : T.a) t.emplace_back(uint16_t(x.a[0].n), uint16_t(x.a[1].n), uint16_t(x.a[2].n));
	return t;
}

std::string trisJson(const std::vector<Triangle>& t) {
	JArr a;
	for (auto& x : t) {
		JArr b;
		b.add(LL(x.p1)).add(LL(x.p2)).add(LL(x.p3));
		a.add(b);
	}
	return a.done();
}

template<typename MT, typename DT>
std::string doMapTris(const JV& T, const VI& m) {
	auto tris = trisOf(T);
	auto map = conv<MT>(m);
	std::vector<DT> del;
	ApplyMapToTriangles(tris, map, &del);
	return "\"out\":" + trisJson(tris) + ",\"deleted\":" + jints(del).s;
}

template<typename MapT>
std::string doMapKeys(const VI& keys, const VI& m, LL off) {
	MapT km;
	using KT = typename MapT::key_type;
	for (auto k : keys) km[static_cast<KT>(k)] = int(100 + k);
	ApplyIndexMapToMapKeys(km, conv<int>(m), int(off));
	std::vector<std::pair<LL, LL>> items;
	for (auto& kv : km) items.emplace_back(LL(kv.first), LL(kv.second));
	std::sort(items.begin(), items.end());
	JArr a;
	for (auto& p : items) {
		JArr b;
		b.add(p.first).add(p.second);
		a.add(b);
	}
	return "\"out\":" + a.done();
}

template<typename IT>
std::string doStrips(const JV& S) {
	std::vector<std::vector<IT>> strips;
	for (auto& s : S.a) strips.push_back(conv<IT>(s.ints()));
	auto tris = GenerateTrianglesFromStrips(strips);
	return "\"out\":" + trisJson(tris);
}

// All implementation variants for one call: list of (type tag, result fields)
std::vector<std::pair<std::string, std::string>> runAll(const JV& c) {
	std::vector<std::pair<std::string, std::string>> r;
	const std::string fn = c["fn"].s;
	auto mkI = [](LL i) { return int(i); };
	auto unI = [](const int& e) { return LL(e); };
	auto mkS = [](LL i) { return std::string(40, 'a' + char(i % 26)) + std::to_string(i); };
	auto unS = [](const std::string& e) { return e.size() < 41 ? LL(-9) : LL(atoll(e.c_str() + 40)); };
	if (fn == "erase") {
		LL n = c["n"].n;
		VI I = c["I"].ints();
		r.emplace_back("u16/int", doErase<uint16_t, int>(n, I, mkI, unI));
		r.emplace_back("u32/int", doErase<uint32_t, int>(n, I, mkI, unI));
		r.emplace_back("int/int", doErase<int, int>(n, I, mkI, unI));
		r.emplace_back("u16/str", doErase<uint16_t, std::string>(n, I, mkS, unS));
		r.emplace_back("u32/str", doErase<uint32_t, std::string>(n, I, mkS, unS));
	}
	else if (fn == "insert") {
		LL n = c["n"].n;
		VI I = c["I"].ints();
		r.emplace_back("u16/int", doInsert<uint16_t, int>(n, I, mkI, unI));
		r.emplace_back("u32/int", doInsert<uint32_t, int>(n, I, mkI, unI));
		r.emplace_back("int/int", doInsert<int, int>(n, I, mkI, unI));
		r.emplace_back("u16/str", doInsert<uint16_t, std::string>(n, I, mkS, unS));
	}
	else if (fn == "collapse") {
		LL n = c["n"].n;
		VI I = c["I"].ints();
		r.emplace_back("u16/size", doCollapse<uint16_t, size_t>(n, I));
		r.emplace_back("u16/u16", doCollapse<uint16_t, uint16_t>(n, I));
		r.emplace_back("u32/u32", doCollapse<uint32_t, uint32_t>(n, I));
		r.emplace_back("int/int", doCollapse<int, int>(n, I));
	}
	else if (fn == "expand") {
		LL n = c["n"].n;
		VI I = c["I"].ints();
		r.emplace_back("u16/size", doExpand<uint16_t, size_t>(n, I));
		r.emplace_back("u16/u16", doExpand<uint16_t, uint16_t>(n, I));
		r.emplace_back("u32/u32", doExpand<uint32_t, uint32_t>(n, I));
		r.emplace_back("int/int", doExpand<int, int>(n, I));
	}
	else if (fn == "maptris") {
		VI m = c["m"].ints();
		r.emplace_back("int/int", doMapTris<int, int>(c["T"], m));
		r.emplace_back("int/u32", doMapTris<int, uint32_t>(c["T"], m));
		bool nonneg = std::all_of(m.begin(), m.end(), [](LL x) { return x >= 0; });
		if (nonneg) r.emplace_back("u16/int", doMapTris<uint16_t, int>(c["T"], m));
	}
	else if (fn == "mapkeys") {
		VI keys = c["keys"].ints(), m = c["m"].ints();
		LL off = c["off"].n;
		r.emplace_back("map<int>", doMapKeys<std::map<int, int>>(keys, m, off));
		r.emplace_back("umap<u16>", doMapKeys<std::unordered_map<uint16_t, int>>(keys, m, off));
		r.emplace_back("umap<int>", doMapKeys<std::unordered_map<int, int>>(keys, m, off));
	}
	else if (fn == "strips") {
		r.emplace_back("u16", doStrips<uint16_t>(c["strips"]));
		r.emplace_back("u32", doStrips<uint32_t>(c["strips"]));
		r.emplace_back("int", doStrips<int>(c["strips"]));
	}
	return r;
}

std::string canon(const JV& v); // canonical JSON text of a parsed value, for comparing with TLC's expectation
std::string canon(const JV& v) {
	switch (v.k) {
		case JV::Null: return "null";
		case JV::Bool: return v.b ? "true" : "false";
		case JV::Num: return std::to_string(v.n);
		case JV::Str: return J::str(v.s).s;
		case JV::Arr: {
			JArr a;
			for (auto& x : v.a) a.raw(canon(x));
			return a.done();
		}
		case JV::Obj: {
			std::vector<std::pair<std::string, std::string>> kv;
			for (auto& p : v.o) kv.emplace_back(p.first, canon(p.second));
			std::sort(kv.begin(), kv.end());
			JObj o;
			for (auto& p : kv) o.raw(p.first.c_str(), p.second);
			return o.done();
		}
	}
	return "null";
}

// does the implementation result (fields) equal the expectation TLC computed with the *_Exact definition?
bool sameAsExpected(const JV& exp, const std::string& fields) {
	JV got = jparse("{" + fields + "}");
	for (auto& kv : got.o) {
		if (!exp.has(kv.first.c_str())) return false;
		if (canon(exp[kv.first.c_str()]) != canon(kv.second)) return false;
	}
	return true;
}

std::string callJson(const JV& c) { return canon(c); }

int cmdReplay(int argc, char** argv) {
	if (argc < 4) return 2;
	auto lines = readLines(argv[1]);
	std::string outPath = argv[2];
	size_t sampleEvery = strtoul(argv[3], nullptr, 10);
	{ Out trunc(outPath); }
	size_t chunk = 400, total = 0, mism = 0, crashes = 0, variants = 0;
	auto runChunk = [&](size_t a, size_t b) -> int {
		FILE* f = fopen(outPath.c_str(), "a");
		size_t lm = 0, lv = 0;
		for (size_t i = a; i < b; i++) {
			JV rec = jparse(lines[i]);
			const JV& c = rec["c"];
			auto res = runAll(c);
			for (auto& tr : res) {
				lv++;
				bool same = sameAsExpected(rec["exp"], tr.second);
				if (!same) lm++;
				if (!same || (sampleEvery && (i % sampleEvery) == 0)) {
					fprintf(f, "{\"e\":\"call\",\"case\":%zu,\"c\":%s,\"ty\":%s,\"match\":%s,\"r\":{%s}}\n", i,
							callJson(c).c_str(), J::str(tr.first).s.c_str(), same ? "true" : "false", tr.second.c_str());
				}
			}
		}
		fprintf(f, "{\"e\":\"stat\",\"cases\":%zu,\"variants\":%zu,\"mismatch\":%zu}\n", b - a, lv, lm);
		fclose(f);
		return 0;
	};
	for (size_t a = 0; a < lines.size(); a += chunk) {
		size_t b = std::min(lines.size(), a + chunk);
		std::string why;
		long before = fileSize(outPath);
		if (forkRun([&] { return runChunk(a, b); }, 120, why) != 0) {
			// find the crashing call(s): one fork per case (what the crashed child had appended is dropped first)
			cutBack(outPath, before);
			if (crashes >= 8) {
				// enough crashing calls have been pinned down one by one: record the chunk as a whole and go on
				crashes++;
				FILE* f = fopen(outPath.c_str(), "a");
				fprintf(f, "{\"e\":\"crash\",\"case\":%zu,\"c\":{\"fn\":\"chunk\",\"from\":%zu,\"to\":%zu},\"why\":%s}\n", a, a, b, J::str(why).s.c_str());
				fprintf(f, "{\"e\":\"stat\",\"cases\":%zu,\"variants\":0,\"mismatch\":0}\n", b - a - 1);
				fclose(f);
				continue;
			}
			for (size_t i = a; i < b; i++) {
				std::string w2;
				long b1 = fileSize(outPath);
				if (forkRun([&] { return runChunk(i, i + 1); }, 30, w2) != 0) {
					cutBack(outPath, b1);
					crashes++;
					FILE* f = fopen(outPath.c_str(), "a");
					JV rec = jparse(lines[i]);
					fprintf(f, "{\"e\":\"crash\",\"case\":%zu,\"c\":%s,\"why\":%s}\n", i, callJson(rec["c"]).c_str(),
							J::str(w2).s.c_str());
					fclose(f);
				}
			}
		}
	}
	// summarise
	for (auto& l : readLines(outPath)) {
		JV r = jparse(l);
		if (r["e"].s == "stat") {
			total += r["cases"].n;
			variants += r["variants"].n;
			mism += r["mismatch"].n;
		}
	}
	printf("{\"cases\":%zu,\"variants\":%zu,\"mismatch\":%zu,\"crashes\":%zu}\n", total, variants, mism, crashes);
	return 0;
}

// random larger calls; every record is logged (trace validation decides)
int cmdRandom(int argc, char** argv) {
	if (argc < 3) return 2;
	std::string outPath = argv[1];
	size_t count = strtoul(argv[2], nullptr, 10);
	std::mt19937_64 rng(seedFromEnv() * 7919 + 18);
	std::vector<std::string> calls;
	auto rnd = [&](LL lo, LL hi) { return lo + LL(rng() % uint64_t(hi - lo + 1)); };
	auto sortedSubset = [&](LL maxv, double p) {
		JArr a;
		for (LL i = 0; i <= maxv; i++)
			if ((rng() % 1000) < p * 1000) a.add(i);
		return a.done();
	};
	for (size_t k = 0; k < count; k++) {
		LL n = rnd(0, 40);
		double p = (rng() % 4) * 0.25 + 0.05;
		switch (k % 7) {
			case 0: calls.push_back("{\"fn\":\"erase\",\"n\":" + std::to_string(n) + ",\"I\":" + sortedSubset(n + 3, p) + "}"); break;
			case 1: calls.push_back("{\"fn\":\"insert\",\"n\":" + std::to_string(n) + ",\"I\":" + sortedSubset(n + 5, p * 0.5) + "}"); break;
			case 2: calls.push_back("{\"fn\":\"collapse\",\"n\":" + std::to_string(n) + ",\"I\":" + sortedSubset(n + 3, p) + "}"); break;
			case 3: calls.push_back("{\"fn\":\"expand\",\"n\":" + std::to_string(n) + ",\"I\":" + sortedSubset(n + 5, p * 0.5) + "}"); break;
			case 4: {
				LL nv = rnd(1, 12), nt = rnd(0, 12);
				JArr T;
				for (LL t = 0; t < nt; t++) {
					JArr tri;
					for (int c = 0; c < 3; c++) tri.add(rnd(0, nv + 1));
					T.add(tri);
				}
				JArr m;
				LL next = 0;
				// (removed entries are any negative number: -1, the "-2 - target" and "-(old) - 1" markers of merge maps)
				for (LL i = 0; i < nv; i++) m.add((rng() % 3) == 0 ? ((rng() % 2) ? LL(-1) : -2 - rnd(0, 40)) : next++);
				calls.push_back("{\"fn\":\"maptris\",\"T\":" + T.done() + ",\"m\":" + m.done() + "}");
				break;
			}
			case 5: {
				LL nk = rnd(0, 8);
				JArr keys;
				for (LL i = 0; i < 20 && nk > 0; i++)
					if (rng() % 2) { keys.add(i); nk--; }
				LL ms = rnd(0, 10);
				JArr m;
				LL next = 0;
				for (LL i = 0; i < ms; i++) m.add((rng() % 3) == 0 ? ((rng() % 2) ? LL(-1) : -2 - rnd(0, 40)) : next++);
				// offset chosen so that shifted keys cannot collide with mapped ones or go negative
				calls.push_back("{\"fn\":\"mapkeys\",\"keys\":" + keys.done() + ",\"m\":" + m.done() + ",\"off\":0}");
				break;
			}
			case 6: {
				LL ns = rnd(0, 4);
				JArr S;
				for (LL s = 0; s < ns; s++) {
					JArr st;
					LL len = rnd(0, 12), nv = rnd(1, 6);
					for (LL i = 0; i < len; i++) st.add(rnd(0, nv));
					S.add(st);
				}
				calls.push_back("{\"fn\":\"strips\",\"strips\":" + S.done() + "}");
				break;
			}
		}
	}
	{ Out trunc(outPath); }
	size_t crashes = 0, n = 0;
	size_t chunk = 200;
	for (size_t a = 0; a < calls.size(); a += chunk) {
		size_t b = std::min(calls.size(), a + chunk);
		std::string why;
		auto fn = [&](size_t x, size_t y) {
			FILE* f = fopen(outPath.c_str(), "a");
			for (size_t i = x; i < y; i++) {
				JV c = jparse(calls[i]);
				for (auto& tr : runAll(c))
					fprintf(f, "{\"e\":\"call\",\"case\":%zu,\"c\":%s,\"ty\":%s,\"match\":false,\"r\":{%s}}\n", i, canon(c).c_str(),
							J::str(tr.first).s.c_str(), tr.second.c_str());
			}
			fclose(f);
			return 0;
		};
		long before = fileSize(outPath);
		if (forkRun([&] { return fn(a, b); }, 120, why) != 0) {
			cutBack(outPath, before);
			for (size_t i = a; i < b; i++) {
				std::string w2;
				long b1 = fileSize(outPath);
				if (forkRun([&] { return fn(i, i + 1); }, 30, w2) != 0) {
					cutBack(outPath, b1);
					crashes++;
					FILE* f = fopen(outPath.c_str(), "a");
					fprintf(f, "{\"e\":\"crash\",\"case\":%zu,\"c\":%s,\"why\":%s}\n", i, calls[i].c_str(), J::str(w2).s.c_str());
					fclose(f);
				}
			}
		}
		n += b - a;
	}
	printf("{\"cases\":%zu,\"crashes\":%zu}\n", n, crashes);
	return 0;
}

// 16-bit edge: vectors of 65535 elements (the vertex limit); results are logged run-length encoded
int cmdEdge(int argc, char** argv) {
	if (argc < 2) return 2;
	{ Out trunc(argv[1]); }
	std::mt19937_64 rng(seedFromEnv() * 31 + 7);
	auto rle = [](const std::vector<LL>& v) {
		JArr a;
		size_t i = 0;
		while (i < v.size()) {
			size_t j = i;
			while (j + 1 < v.size() && v[j + 1] == v[j] + 1) j++;
			JArr r;
			r.add(v[i]).add(LL(j - i + 1));
			a.add(r);
			i = j + 1;
		}
		return a.done();
	};
	for (int k = 0; k < 12; k++) {
		LL n = k % 3 == 0 ? 65535 : (k % 3 == 1 ? 65534 : 40000 + LL(rng() % 25000));
		std::vector<LL> I;
		switch (k % 4) {
			case 0: I = {0, n - 1}; break;
			case 1: for (LL i = n - 5; i < n; i++) I.push_back(i); break;
			case 2: for (LL i = 0; i < n; i += 1 + LL(rng() % 9000)) I.push_back(i); break;
			case 3: for (LL i = 100; i < 110; i++) I.push_back(i); I.push_back(n - 1); break;
		}
		std::string why;
		std::string line;
		int rc = forkRun(
			[&] {
				std::vector<int> v(n);
				for (LL i = 0; i < n; i++) v[i] = int(i);
				auto idx = conv<uint16_t>(I);
				EraseVectorIndices(v, idx);
				std::vector<LL> o(v.begin(), v.end());
				std::vector<int> cm = GenerateIndexCollapseMap(idx, size_t(n));
				// survivors of the collapse map must be 0..k-1 ascending: log (count of -1, last value, monotone flag)
				LL neg = 0, last = -1;
				bool mono = true;
				for (auto x : cm) {
					if (x < 0) neg++;
					else {
						if (x != last + 1) mono = false;
						last = x;
					}
				}
				FILE* f = fopen(argv[1], "a");
				fprintf(f, "{\"e\":\"edge\",\"n\":%lld,\"I\":%s,\"runs\":%s,\"cmNeg\":%lld,\"cmLast\":%lld,\"cmMono\":%s}\n", n, jints(I).s.c_str(),
						rle(o).c_str(), neg, last, mono ? "true" : "false");
				fclose(f);
				return 0;
			},
			60, why);
		if (rc != 0) {
			FILE* f = fopen(argv[1], "a");
			fprintf(f, "{\"e\":\"crash\",\"case\":%d,\"c\":{\"fn\":\"edge\",\"n\":%lld},\"why\":%s}\n", k, n, J::str(why).s.c_str());
			fclose(f);
		}
	}
	return 0;
}

Reg r1("c18-replay", cmdReplay);
Reg r2("c18-random", cmdRandom);
Reg r3("c18-edge", cmdEdge);
} // namespace
