#include "hooks.hpp"

using namespace nifly;

namespace vh {
namespace {
struct PutObserver : verif::Observer {
	std::unordered_set<const void*> live;
	PutInfo* info = nullptr;
	NiOStream* os = nullptr;
	void RefBorn(const NiRef* r) override { live.insert(r); }
	void RefDied(const NiRef* r) override { live.erase(r); }
	bool Field(NiStreamReversible& s, verif::FieldKind, void* p, size_t n) override {
		if (info && n == 4 && s.GetMode() == NiStreamReversible::Mode::Writing && live.count(p)) {
			uint32_t v;
			memcpy(&v, p, 4);
			info->wrefs.emplace_back((size_t) s.asWrite()->GetBlockSize(), refVal(v));
			info->refObjs.push_back(p);
		}
		return false;
	}
	void StringRef(NiIStream*, NiOStream* o, NiStringRef* sr) override {
		if (info && o && o->GetVersion().File() >= V20_1_0_3) {
			info->wstrs.emplace_back((size_t) o->GetBlockSize(), refVal(sr->GetIndex()));
			info->strObjs.push_back(sr);
		}
	}
};
} // namespace

std::string PutInfo::masked() const {
	std::string m = bytes;
	for (auto& w : wrefs)
		if (w.first + 4 <= m.size()) memset(&m[w.first], 0, 4);
	for (auto& w : wstrs)
		if (w.first + 4 <= m.size()) memset(&m[w.first], 0, 4);
	return m;
}

PutInfo putBlock(NiObject* b, NiHeader& hdr, std::unique_ptr<NiObject>* keepClone) {
	PutInfo info;
	PutObserver obs;
	verif::Observer* prev = verif::observer;
	verif::observer = &obs;
	{
		std::unique_ptr<NiObject> cl = b->Clone();
		obs.info = &info;
		std::ostringstream os(std::ios::binary);
		NiHeader h2(hdr);
		NiOStream s(&os, &h2);
		cl->Put(s);
		obs.info = nullptr;
		info.bytes = os.str();
		if (keepClone) *keepClone = std::move(cl);
	}
	verif::observer = prev;
	return info;
}
} // namespace vh
