// nvh: nifly verification harness. One binary, one sub-command per conformance leg.
#include "common.hpp"
#include <csignal>
#include <sys/resource.h>
#include <sys/wait.h>
#include <unistd.h>

namespace vh {
int forkRun(const std::function<int()>& fn, int seconds, std::string& why, size_t memLimitMB) {
	fflush(stdout);
	fflush(stderr);
	pid_t pid = fork();
	if (pid < 0) {
		why = "fork failed";
		return -1;
	}
	if (pid == 0) {
		if (memLimitMB) {
			struct rlimit rl;
			rl.rlim_cur = rl.rlim_max = memLimitMB * 1024ull * 1024ull;
			setrlimit(RLIMIT_AS, &rl);
		}
		struct rlimit core = {0, 0};
		setrlimit(RLIMIT_CORE, &core);
		alarm(seconds);
		int rc = 99;
		try {
			rc = fn();
		}
		catch (const std::bad_alloc&) {
			rc = 98;
		}
		catch (const std::exception& e) {
			fprintf(stderr, "exception: %s\n", e.what());
			rc = 97;
		}
		fflush(stdout);
		fflush(stderr);
		_exit(rc);
	}
	int st = 0;
	waitpid(pid, &st, 0);
	if (WIFSIGNALED(st)) {
		int sig = WTERMSIG(st);
		why = sig == SIGALRM ? "Timeout" : ("Signal" + std::to_string(sig));
		return 1;
	}
	int rc = WEXITSTATUS(st);
	if (rc == 0) return 0;
	if (rc == 98) why = "OOM";
	else if (rc == 97) why = "Exception";
	else why = "Exit" + std::to_string(rc);
	return 1;
}
} // namespace vh

int main(int argc, char** argv) {
	if (argc < 2) {
		fprintf(stderr, "usage: nvh <command> [args]\ncommands:");
		for (auto& kv : vh::Registry::cmds()) fprintf(stderr, " %s", kv.first.c_str());
		fprintf(stderr, "\n");
		return 2;
	}
	auto it = vh::Registry::cmds().find(argv[1]);
	if (it == vh::Registry::cmds().end()) {
		fprintf(stderr, "unknown command %s\n", argv[1]);
		return 2;
	}
	return it->second(argc - 1, argv + 1);
}
