// nvh: nifly verification harness. One binary, one sub-command per conformance leg.
#include "common.hpp"
#include <csignal>
#include <sys/resource.h>
#include <sys/wait.h>
#include <fcntl.h>
#include <unistd.h>

#if defined(__has_feature)
#if __has_feature(address_sanitizer)
#define NVH_ASAN 1
#endif
#endif
#if defined(__SANITIZE_ADDRESS__)
#define NVH_ASAN 1
#endif

namespace vh {
// AddressSanitizer reserves terabytes of address space: an RLIMIT_AS cannot be combined with it
#ifdef NVH_ASAN
static const bool kCanLimitAS = false;
#else
static const bool kCanLimitAS = true;
#endif
int forkRun(const std::function<int()>& fn, int seconds, std::string& why, size_t memLimitMB) {
	fflush(stdout);
	fflush(stderr);
	pid_t pid = fork();
	if (pid < 0) {
		why = "fork failed";
		return -1;
	}
	if (pid == 0) {
		if (memLimitMB && kCanLimitAS) {
			struct rlimit rl;
			rl.rlim_cur = rl.rlim_max = memLimitMB * 1024ull * 1024ull;
			setrlimit(RLIMIT_AS, &rl);
		}
		struct rlimit core = {0, 0};
		setrlimit(RLIMIT_CORE, &core);
		alarm(seconds);
		int rc = 99;
		try {
			rc = fn();
		}
		catch (const std::bad_alloc&) {
			rc = 98;
		}
		catch (const std::exception& e) {
			fprintf(stderr, "exception: %s\n", e.what());
			rc = 97;
		}
		fflush(stdout);
		fflush(stderr);
		_exit(rc);
	}
	int st = 0;
	waitpid(pid, &st, 0);
	if (WIFSIGNALED(st)) {
		int sig = WTERMSIG(st);
		why = sig == SIGALRM ? "Timeout" : ("Signal" + std::to_string(sig));
		return 1;
	}
	int rc = WEXITSTATUS(st);
	if (rc == 0) return 0;
	if (rc == 98) why = "OOM";
	else if (rc == 97) why = "Exception";
	else why = "Exit" + std::to_string(rc);
	return 1;
}

static int g_markFd = -1;
static int g_lastPhase = 0;
void markPhase(int phase) {
	if (g_markFd >= 0) {
		uint64_t v = (uint64_t) phase;
		if (pwrite(g_markFd, &v, sizeof v, 8) != (ssize_t) sizeof v) {}
	}
}
int lastCrashPhase() { return g_lastPhase; }

size_t runForkedCases(size_t n, const std::string& outPath, int secondsPerCase, const std::function<void(size_t, std::string&)>& fn,
					  const std::function<void(size_t, const std::string&, FILE*)>& onCrash, size_t memLimitMB) {
	size_t start = 0, crashes = 0, timeouts = 0;
	// a wall-clock limit that fires once on a loaded machine is not a hang: the case is run again, first in a fresh child and
	// with four times the limit; only a second timeout of the same case is reported
	size_t retryAt = (size_t) -1;
	const char* mt = getenv("NVH_MAX_TIMEOUTS");
	size_t maxTimeouts = mt && *mt ? strtoul(mt, nullptr, 10) : 12;
	std::string markPath = outPath + ".mark";
	while (start < n) {
		fflush(stdout);
		fflush(stderr);
		pid_t pid = fork();
		if (pid < 0) return crashes + 1;
		if (pid == 0) {
			if (memLimitMB && kCanLimitAS) {
				struct rlimit rl;
				rl.rlim_cur = rl.rlim_max = memLimitMB * 1024ull * 1024ull;
				setrlimit(RLIMIT_AS, &rl);
			}
			struct rlimit core = {0, 0};
			setrlimit(RLIMIT_CORE, &core);
			FILE* out = fopen(outPath.c_str(), "a");
			int mfd = open(markPath.c_str(), O_WRONLY | O_CREAT | O_TRUNC, 0644);
			int rc = 0;
			try {
				for (size_t i = start; i < n; i++) {
					uint64_t v = i;
					if (pwrite(mfd, &v, sizeof v, 0) != (ssize_t) sizeof v) { rc = 96; break; }
					g_markFd = mfd;
					markPhase(0);
					alarm(i == retryAt ? (unsigned) secondsPerCase * 4u : (unsigned) secondsPerCase);
					std::string buf;
					fn(i, buf);          // a case's output reaches the file only when the case completed
					fwrite(buf.data(), 1, buf.size(), out);
					fflush(out);
				}
			}
			catch (const std::bad_alloc&) {
				rc = 98;
			}
			catch (const std::exception& e) {
				fprintf(stderr, "exception: %s\n", e.what());
				rc = 97;
			}
			alarm(0);
			fclose(out);
			close(mfd);
			_exit(rc);
		}
		int st = 0;
		waitpid(pid, &st, 0);
		if (WIFEXITED(st) && WEXITSTATUS(st) == 0) break;
		std::string why;
		if (WIFSIGNALED(st)) why = WTERMSIG(st) == SIGALRM ? "Timeout" : ("Signal" + std::to_string(WTERMSIG(st)));
		else why = WEXITSTATUS(st) == 98 ? "OOM" : (WEXITSTATUS(st) == 97 ? "Exception" : "Exit" + std::to_string(WEXITSTATUS(st)));
		uint64_t at = start;
		{
			int mfd = open(markPath.c_str(), O_RDONLY);
			if (mfd >= 0) {
				if (read(mfd, &at, sizeof at) != (ssize_t) sizeof at) at = start;
				uint64_t ph = 0;
				if (pread(mfd, &ph, sizeof ph, 8) == (ssize_t) sizeof ph) g_lastPhase = (int) ph;
				close(mfd);
			}
		}
		if (why == "Timeout" && (size_t) at != retryAt) {
			retryAt = (size_t) at;
			start = (size_t) at;
			fprintf(stderr, "runForkedCases: case %zu timed out once, run again\n", (size_t) at);
			continue;
		}
		crashes++;
		FILE* out = fopen(outPath.c_str(), "a");
		onCrash((size_t) at, why, out);
		fclose(out);
		start = (size_t) at + 1;
		// a library that hangs on case after case would keep this run going for hours: after a dozen timeouts the remaining
		// cases are not run (the timeouts recorded so far are what the check reports)
		if (why == "Timeout" && ++timeouts >= maxTimeouts) {
			fprintf(stderr, "runForkedCases: %zu cases timed out, %zu remaining cases not run\n", timeouts, n - start);
			break;
		}
	}
	unlink(markPath.c_str());
	return crashes;
}
} // namespace vh

int main(int argc, char** argv) {
	if (argc < 2) {
		fprintf(stderr, "usage: nvh <command> [args]\ncommands:");
		for (auto& kv : vh::Registry::cmds()) fprintf(stderr, " %s", kv.first.c_str());
		fprintf(stderr, "\n");
		return 2;
	}
	auto it = vh::Registry::cmds().find(argv[1]);
	if (it == vh::Registry::cmds().end()) {
		fprintf(stderr, "unknown command %s\n", argv[1]);
		return 2;
	}
	return it->second(argc - 1, argv + 1);
}
