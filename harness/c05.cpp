// C05: every serialised block or string reference is enumerated by its owner.
//   c05-enum <out.ndjson> <versionsCsv|all> <modesCsv>
#include "hooks.hpp"
#include "synth.hpp"

using namespace nifly;
using namespace vh;

namespace {
struct Ords {
	std::map<const void*, int> m;
	int of(const void* p) {
		auto it = m.find(p);
		if (it != m.end()) return it->second;
		int id = (int) m.size() + 1;
		m[p] = id;
		return id;
	}
	std::string list(const std::vector<const void*>& v) {
		JArr a;
		for (auto p : v) a.add(of(p));
		return a.done();
	}
};

template<typename T>
std::vector<const void*> ptrs(const T& c) {
	std::vector<const void*> r;
	for (auto p : c) r.push_back(p);
	return r;
}

std::string writtenRefs(NiObject* b, NiHeader& hdr) {
	PutInfo pi = putBlock(b, hdr);
	JArr a;
	for (auto& w : pi.wrefs) a.add(w.second);
	return a.done();
}
std::string writtenStrings(NiObject* b, NiHeader& hdr) {
	PutInfo pi = putBlock(b, hdr);
	JArr a;
	for (auto& w : pi.wstrs) a.add(hdr.GetStringById(w.second < 0 ? NIF_NPOS : (uint32_t) w.second));
	return a.done();
}

int cmdEnum(int argc, char** argv) {
	if (argc < 4) return 2;
	std::string outPath = argv[1];
	std::vector<std::string> versions, modes;
	{
		std::stringstream ss(argv[2]);
		std::string v;
		while (std::getline(ss, v, ',')) versions.push_back(v);
		if (versions.size() == 1 && versions[0] == "all") {
			versions.clear();
			for (auto& kv : synthVersions()) versions.push_back(kv.first);
		}
		std::stringstream ms(argv[3]);
		while (std::getline(ms, v, ',')) modes.push_back(v);
	}
	auto types = allBlockTypes();
	struct Case {
		std::string type, ver;
		int mode;
		std::vector<std::pair<int, long long>> ov; // fixed generator fields: settings of the value sweep (c01-probe)
	};
	std::vector<Case> cases;
	for (auto& t : types)
		for (auto& v : versions)
			for (auto& m : modes) cases.push_back({t, v, atoi(m.c_str()), {}});
	if (argc > 4)
		for (auto& l : readLines(argv[4])) {
			JV c = jparse(l);
			Case cs{c["type"].s, c["ver"].s, (int) c["mode"].n, {}};
			for (auto& e : c["ov"].a) cs.ov.emplace_back((int) e.a[0].n, (long long) e.a[1].n);
			cases.push_back(cs);
		}
	uint64_t seed = seedFromEnv();
	{ Out trunc(outPath); }
	auto caseOf = [&](size_t k) {
		JObj c;
		c.add("type", cases[k].type).add("ver", cases[k].ver).add("mode", cases[k].mode).add("seed", (long long) seed);
		if (!cases[k].ov.empty()) {
			JArr a;
			for (auto& q : cases[k].ov) {
				JArr e;
				e.add((long long) q.first).add(q.second);
				a.add(e);
			}
			c.raw("ov", a.done());
		}
		return c.done();
	};
	size_t crashes = runForkedCases(
		cases.size(), outPath, 20,
		[&](size_t k, std::string& out) {
			NifFile nif;
			SynthInfo si;
			bool made = cases[k].ov.empty() ? synthFile(nif, cases[k].type, cases[k].ver, cases[k].mode, seed, -1, &si)
											: synthFileOv(nif, cases[k].type, cases[k].ver, cases[k].mode, seed, cases[k].ov, &si);
			if (!made) return;
			markPhase(1);
			auto& hdr = nif.GetHeader();
			NiObject* b = hdr.GetBlock<NiObject>(si.blockId);
			Ords ord;
			JObj ev;
			ev.add("e", "enum").raw("case", caseOf(k)).add("stringTable", hdr.GetVersion().File() >= V20_1_0_3);
			// --- static leg, reading: objects read vs enumerated on the live block
			std::set<NiRef*> er;
			std::set<NiPtr*> ep;
			std::vector<NiStringRef*> es;
			b->GetChildRefs(er);
			b->GetPtrs(ep);
			b->GetStringRefs(es);
			ev.raw("readRefs", ord.list(si.readRefs)).raw("readStrs", ord.list(si.readStrs));
			ev.raw("enumRefs", ord.list(ptrs(er))).raw("enumPtrs", ord.list(ptrs(ep))).raw("enumStrs", ord.list(ptrs(es)));
			std::vector<uint32_t> ci;
			b->GetChildIndices(ci);
			JArr jci, jcv;
			for (auto v : ci) jci.add(refVal(v));
			for (auto r : er) jcv.add(refVal(r->index));
			ev.raw("childIndices", jci.done()).raw("childRefValues", jcv.done());
			// --- static leg, writing: objects written by Put of a clone vs enumerated on that clone
			{
				std::unique_ptr<NiObject> cl;
				PutInfo pi = putBlock(b, hdr, &cl);
				std::set<NiRef*> er2;
				std::set<NiPtr*> ep2;
				std::vector<NiStringRef*> es2;
				cl->GetChildRefs(er2);
				cl->GetPtrs(ep2);
				cl->GetStringRefs(es2);
				Ords o2;
				ev.raw("writeRefs", o2.list(pi.refObjs)).raw("writeStrs", o2.list(pi.strObjs));
				ev.raw("enumRefsW", o2.list(ptrs(er2))).raw("enumPtrsW", o2.list(ptrs(ep2))).raw("enumStrsW", o2.list(ptrs(es2)));
			}
			// --- dynamic leg: the values written at the reference fields after the graph is edited
			hdr.UpdateHeaderStrings(false);
			ev.raw("before", writtenRefs(b, hdr)).raw("stringsBefore", writtenStrings(b, hdr));
			{
				NifFile c(nif);
				c.GetHeader().DeleteBlock(1u);
				ev.add("deleted", 1).raw("afterDelete", writtenRefs(c.GetHeader().GetBlock<NiObject>(si.blockId - 1), c.GetHeader()));
			}
			{
				NifFile c(nif);
				uint32_t n = c.GetHeader().GetNumBlocks();
				std::vector<uint32_t> p(n);
				JArr jp;
				for (uint32_t i = 0; i < n; i++) {
					p[i] = (i + 1) % n;
					jp.add((long long) p[i]);
				}
				c.GetHeader().SetBlockOrder(p);
				ev.raw("order", jp.done()).raw("afterOrder", writtenRefs(c.GetHeader().GetBlock<NiObject>(p[si.blockId]), c.GetHeader()));
			}
			{
				NifFile c(nif);
				// new strings in front: every index moves when the table is rebuilt
				c.GetRootNode()->name.get() = "renamed root";
				c.GetHeader().UpdateHeaderStrings(false);
				ev.raw("stringsAfterRebuild", writtenStrings(c.GetHeader().GetBlock<NiObject>(si.blockId), c.GetHeader()));
			}
			out += ev.done() + "\n";
		},
		[&](size_t k, const std::string& why, FILE* out) {
			int ph = lastCrashPhase();
			// crashes are not this property's subject (damage done by generator input can surface late): the instance is dropped
			fprintf(out, "{\"e\":\"discard\",\"case\":%s,\"why\":%s,\"phase\":%d}\n", caseOf(k).c_str(), J::str(why).s.c_str(), ph);
		},
		2048);
	printf("{\"cases\":%zu,\"crashes\":%zu}\n", cases.size(), crashes);
	return 0;
}
Reg r1("c05-enum", cmdEnum);
} // namespace
