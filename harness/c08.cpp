// C08: wire format compatibility with the reference build. The same source is compiled against the reference snapshot
// (/verif/ref = pinned sources + hooks) and against the working tree.
//   c08-gen <dir> <typeStride> <typeOffset>     write synthesised normal-form files <type>__<ver>__<mode>.nif
//   c08-resave <list.txt> <out.ndjson>          load + raw re-save of each listed file; what an independent reader sees
#include "synth.hpp"
#include <sys/stat.h>

using namespace nifly;
using namespace vh;

namespace {
std::string hex128(const std::string& b) {
	Hash128 h = hashBytes(b.data(), b.size());
	char buf[40];
	snprintf(buf, sizeof buf, "%016llx%016llx", (unsigned long long) h.a, (unsigned long long) h.b);
	return buf;
}

std::string describe(const std::string& bytes) {
	HeaderInfo h = parseHeader(bytes);
	JObj f;
	f.add("parsed", h.ok).add("len", (long long) bytes.size()).add("nblocks", (long long) h.nblocks).add("hs", h.hasSizes);
	JArr types, tidx, sizes, strings, hashes;
	for (auto& t : h.types) types.add(t);
	for (auto v : h.tidx) tidx.add((long long) v);
	for (auto v : h.sizes) sizes.add((long long) (v > 0x7ffffff0u ? 0x7ffffff0u : v));
	for (auto& s : h.strings) strings.add(s);
	size_t pos = h.hdrLen;
	bool walked = h.ok && h.hasSizes;
	for (uint32_t i = 0; walked && i < h.nblocks; i++) {
		size_t sz = h.sizes[i];
		if (pos + sz > bytes.size()) { walked = false; break; }
		hashes.add(hex128(bytes.substr(pos, sz)));
		pos += sz;
	}
	f.add("types", types).add("tidx", tidx).add("sizes", sizes).add("strings", strings).add("blockHashes", hashes).add("walked", walked);
	f.add("end", (long long) pos).add("whole", hex128(bytes));
	return f.done();
}

int cmdGen(int argc, char** argv) {
	if (argc < 4) return 2;
	std::string dir = argv[1];
	size_t stride = strtoul(argv[2], nullptr, 10), offset = strtoul(argv[3], nullptr, 10);
	mkdir(dir.c_str(), 0755);
	auto types = allBlockTypes();
	uint64_t seed = seedFromEnv();
	struct Case {
		std::string type, ver;
		int mode;
	};
	std::vector<Case> cases;
	for (size_t ti = 0; ti < types.size(); ti++) {
		// every (type, version) pair is always covered: with a stride, the types off the stride get one rotating
		// population mode instead of all three (a version gate off by one shows in whichever mode populates the field)
		bool full = stride <= 1 || ti % stride == offset % stride;
		size_t vi = 0;
		for (auto& kv : synthVersions()) {
			for (int m = 0; m < 3; m++)
				if (full || m == int((ti + vi + offset) % 3)) cases.push_back({types[ti], kv.first, m});
			vi++;
		}
	}
	std::string log = dir + "/gen.log";
	{ Out trunc(log); }
	size_t crashes = runForkedCases(
		cases.size(), log, 20,
		[&](size_t k, std::string& out) {
			NifFile gen;
			if (!synthFile(gen, cases[k].type, cases[k].ver, cases[k].mode, seed)) return;
			markPhase(1);
			NifFile re;
			if (loadFromString(re, saveToString(gen, false, false)) != 0) return;
			std::string nf = saveToString(re, false, false);
			std::string name = cases[k].type;
			for (auto& ch : name)
				if (ch == ':') ch = '-';
			std::string path = dir + "/" + name + "__" + cases[k].ver + "__" + std::to_string(cases[k].mode) + ".nif";
			std::ofstream f(path, std::ios::binary);
			f.write(nf.data(), (std::streamsize) nf.size());
			out += path + "\n";
		},
		[&](size_t, const std::string&, FILE*) {}, 2048);
	printf("{\"cases\":%zu,\"crashes\":%zu}\n", cases.size(), crashes);
	return 0;
}

int cmdResave(int argc, char** argv) {
	if (argc < 3) return 2;
	auto files = readLines(argv[1]);
	std::string outPath = argv[2];
	{ Out trunc(outPath); }
	size_t crashes = runForkedCases(
		files.size(), outPath, 60,
		[&](size_t k, std::string& out) {
			std::string bytes = readFile(files[k]);
			NifFile nif;
			int rc = loadFromString(nif, bytes);
			JObj ev;
			ev.add("file", files[k]).add("rc", rc).raw("in", describe(bytes));
			if (rc == 0) ev.raw("out", describe(saveToString(nif, false, false)));
			out += ev.done() + "\n";
		},
		[&](size_t k, const std::string& why, FILE* out) { fprintf(out, "{\"file\":%s,\"rc\":-1,\"crash\":%s}\n", J::str(files[k]).s.c_str(), J::str(why).s.c_str()); },
		4096);
	printf("{\"files\":%zu,\"crashes\":%zu}\n", files.size(), crashes);
	return 0;
}
Reg r1("c08-gen", cmdGen);
Reg r2("c08-resave", cmdResave);
} // namespace
