// Observers for the NIFLY_VERIF hooks: where references and string indices sit inside written payloads.
#pragma once
#include "graph.hpp"
#include <unordered_set>

namespace vh {
struct PutInfo {
	std::string bytes;                                  // payload as written by Put of a clone
	std::vector<std::pair<size_t, long long>> wrefs;    // (offset, value) of every serialised NiRef
	std::vector<std::pair<size_t, long long>> wstrs;    // (offset, index) of every serialised string-table index
	std::vector<const void*> refObjs, strObjs;          // ordinal identity of the synced objects (addresses inside the clone)
	std::string masked() const;                         // bytes with the reference / string-index fields zeroed
};
// Put()s a clone of b (never the live block: write-mode Sync normalises in place) and records reference fields.
// When keepClone is given the clone is returned so that its enumerators can be queried against refObjs/strObjs.
PutInfo putBlock(nifly::NiObject* b, nifly::NiHeader& hdr, std::unique_ptr<nifly::NiObject>* keepClone = nullptr);
} // namespace vh
