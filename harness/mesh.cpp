// Projection of a shape (geometry, skin, partitions, segments) to the abstract state of MeshOps.tla, and builders.
#include "mesh.hpp"
#include <unordered_map>

using namespace nifly;

namespace vh {
// a weight in 1/1000; what is no number (or out of all proportion) is -1: no weight is
static long long w1000(double w) {
	if (!(w == w) || w > 1000.0 || w < -1000.0) return -1;
	return (long long) llround(w * 1000.0);
}
namespace {
// access to the protected segmentation of a sub-index shape without casting the object to a type it does not have:
// a derived class may form the pointer to the member, which applies to any BSSubIndexTriShape
struct SegPeek : BSSubIndexTriShape {
	static auto member() { return &SegPeek::segmentation; }
};
std::string trisJson(const std::vector<Triangle>& t) {
	JArr a;
	for (auto& x : t) {
		JArr b;
		b.add((long long) x.p1).add((long long) x.p2).add((long long) x.p3);
		a.add(b);
	}
	return a.done();
}
template<typename T>
std::string u16list(const std::vector<T>& v) {
	JArr a;
	for (auto x : v) a.add((long long) x);
	return a.done();
}
} // namespace

std::string projectShape(NifFile& nif, NiShape* shape, ContentIds& ids) {
	auto& hdr = nif.GetHeader();
	JObj o;
	o.add("kind", shape->GetBlockName()).add("name", shape->name.get());
	uint16_t nv = shape->GetNumVertices();
	o.add("nv", (long long) nv).add("nt", (long long) shape->GetNumTriangles());
	// --- per-vertex data through the public accessors
	std::vector<Vector3> verts;
	nif.GetVertsForShape(shape, verts);
	JArr labels, pcid;
	bool labelled = true;
	for (auto& v : verts) {
		bool ok = v.y == 0 && v.z == 0 && v.x == std::floor(v.x) && std::fabs(v.x) < 100000;
		if (!ok) labelled = false;
		labels.add(ok ? (long long) v.x : -1LL);
		pcid.add(ids.of(&v, sizeof v));
	}
	o.add("labelled", labelled).raw("labels", labels.done()).raw("pcid", pcid.done());
	std::vector<Vector2> uvs;
	nif.GetUvsForShape(shape, uvs);
	const std::vector<Vector3>* norms = nif.GetNormalsForShape(shape);
	std::vector<Vector3> tang, bitang;
	nif.GetTangentsForShape(shape, tang);
	nif.GetBitangentsForShape(shape, bitang);
	std::vector<Color4> cols;
	nif.GetColorsForShape(shape, cols);
	std::vector<float> eye;
	NifFile::GetEyeDataForShape(shape, eye);
	JObj lens;
	lens.add("verts", verts.size()).add("uvs", uvs.size()).add("normals", norms ? norms->size() : 0).add("tangents", tang.size());
	lens.add("bitangents", bitang.size()).add("colors", cols.size()).add("eye", eye.size());
	{
		// length of the longest further UV set (0 if there is none)
		size_t more = 0;
		if (auto gd = shape->GetGeomData())
			for (size_t us = 1; us < gd->uvSets.size(); us++) more = std::max(more, gd->uvSets[us].size());
		lens.add("uvsMore", more);
	}
	o.raw("lens", lens.done());
	// per-attribute content ids (C13): what each getter returns, vertex by vertex
	{
		JObj acid;
		auto lst = [&](const void* base, size_t n, size_t elem) {
			JArr a;
			for (size_t i = 0; i < n; i++) a.add(ids.of((const char*) base + i * elem, elem));
			return a.done();
		};
		acid.raw("verts", lst(verts.data(), verts.size(), sizeof(Vector3)));
		acid.raw("uvs", lst(uvs.data(), uvs.size(), sizeof(Vector2)));
		acid.raw("normals", norms ? lst(norms->data(), norms->size(), sizeof(Vector3)) : std::string("[]"));
		acid.raw("tangents", lst(tang.data(), tang.size(), sizeof(Vector3)));
		acid.raw("bitangents", lst(bitang.data(), bitang.size(), sizeof(Vector3)));
		acid.raw("colors", lst(cols.data(), cols.size(), sizeof(Color4)));
		acid.raw("eye", lst(eye.data(), eye.size(), sizeof(float)));
		o.raw("acid", acid.done());
	}
	// numeric codes for the comparisons "within storage precision" (C12): UVs in 1/2048, colours in 1/255
	{
		JArr uvq, colq;
		for (auto& u : uvs) {
			JArr p;
			p.add((long long) llround(std::max(-1000.0, std::min(1000.0, double(u.u))) * 2048.0)).add((long long) llround(std::max(-1000.0, std::min(1000.0, double(u.v))) * 2048.0));
			uvq.add(p);
		}
		for (auto& c : cols) {
			JArr p;
			p.add((long long) llround(c.r * 255.0)).add((long long) llround(c.g * 255.0)).add((long long) llround(c.b * 255.0)).add((long long) llround(c.a * 255.0));
			colq.add(p);
		}
		o.raw("uvq", uvq.done()).raw("colq", colq.done());
		auto shader = nif.GetShader(shape);
		o.add("shader", shader ? shader->GetBlockName() : "");
		auto parent = nif.GetParentNode(shape);
		o.add("parent", parent ? parent->name.get() : std::string(""));
		JArr tex;
		for (auto& t : nif.GetTexturePathRefs(shape)) tex.add(t.get());
		o.raw("textures", tex.done());
	}
	JArr vattr;
	for (size_t i = 0; i < verts.size(); i++) {
		std::string d;
		auto app = [&](const void* p, size_t n) { d.append((const char*) p, n); };
		if (i < uvs.size()) app(&uvs[i], sizeof(Vector2));
		if (norms && i < norms->size()) app(&(*norms)[i], sizeof(Vector3));
		if (i < tang.size()) app(&tang[i], sizeof(Vector3));
		if (i < bitang.size()) app(&bitang[i], sizeof(Vector3));
		if (i < cols.size()) app(&cols[i], sizeof(Color4));
		if (i < eye.size()) app(&eye[i], sizeof(float));
		// further UV sets of legacy geometry data (the accessors only show the first one)
		if (auto gd = shape->GetGeomData())
			for (size_t us = 1; us < gd->uvSets.size(); us++)
				if (i < gd->uvSets[us].size()) app(&gd->uvSets[us][i], sizeof(Vector2));
		vattr.add(ids.of(d));
	}
	o.raw("vattr", vattr.done());
	// --- triangles / strips
	std::vector<Triangle> tris;
	shape->GetTriangles(tris);
	o.raw("tris", trisJson(tris));
	bool isStrips = shape->HasType<NiTriStrips>();
	o.add("isStrips", isStrips);
	JArr strips;
	if (isStrips) {
		auto sd = hdr.GetBlock<NiTriStripsData>(shape->DataRef());
		if (sd)
			for (auto& s : sd->stripsInfo.points) strips.raw(u16list(s));
	}
	o.raw("strips", strips.done());
	// --- skin
	std::vector<std::string> bones;
	nif.GetShapeBoneList(shape, bones);
	JArr jb, jw;
	for (auto& b : bones) jb.add(b);
	for (uint32_t bi = 0; bi < bones.size() && bi < 400; bi++) {
		std::unordered_map<uint16_t, float> ws;
		nif.GetShapeBoneWeights(shape, bi, ws);
		std::vector<std::pair<uint16_t, float>> sorted(ws.begin(), ws.end());
		std::sort(sorted.begin(), sorted.end());
		JArr one;
		for (auto& kv : sorted) {
			JArr p;
			p.add((long long) kv.first).add((long long) w1000(kv.second));
			one.add(p);
		}
		jw.add(one);
	}
	o.add("skinned", shape->IsSkinned()).raw("bones", jb.done()).raw("weights", jw.done());
	// raw NiSkinData vertex indices (index validity) and BSTriShape weight slots
	JArr sdIdx;
	int sdNumBones = -1;
	auto skinInst = hdr.GetBlock<NiSkinInstance>(shape->SkinInstanceRef());
	if (skinInst) {
		if (auto sd = hdr.GetBlock(skinInst->dataRef)) {
			sdNumBones = (int) sd->bones.size();
			for (auto& b : sd->bones) {
				JArr one;
				for (auto& w : b.vertexWeights) one.add((long long) w.index);
				sdIdx.add(one);
			}
		}
	}
	o.raw("skinDataIdx", sdIdx.done()).add("skinDataBones", sdNumBones);
	// per-vertex weights of BSTriShape vertex data: [[bone, w1000] x 4]
	JArr vw;
	if (auto bs = dynamic_cast<BSTriShape*>(shape)) {
		if (bs->IsSkinned())
			for (auto& v : bs->vertData) {
				JArr one;
				for (int k = 0; k < 4; k++) {
					JArr p;
					p.add((long long) v.weightBones[k]).add((long long) w1000(double(v.weights[k])));
					one.add(p);
				}
				vw.add(one);
			}
		o.add("vertDataLen", bs->vertData.size());
	}
	o.raw("vweights", vw.done());
	// --- partitions
	JArr parts, dism;
	bool mapped = true;
	JArr triParts;
	long long partVertData = -1, partNumVerts = -1;
	if (skinInst) {
		if (auto sp = hdr.GetBlock(skinInst->skinPartitionRef)) {
			mapped = sp->bMappedIndices;
			partVertData = (long long) sp->vertData.size();
			partNumVerts = (long long) sp->numVertices;
			for (auto tp : sp->triParts) triParts.add((long long) tp);
			for (auto& p : sp->partitions) {
				JObj jp;
				jp.add("nv", (long long) p.numVertices).add("nt", (long long) p.numTriangles).add("nb", (long long) p.numBones).add("nstrips", (long long) p.numStrips);
				jp.add("nwpv", (long long) p.numWeightsPerVertex);
				jp.raw("bones", u16list(p.bones)).add("hasVmap", p.hasVertexMap).raw("vmap", u16list(p.vertexMap));
				jp.raw("tris", trisJson(p.triangles)).raw("true", trisJson(p.trueTriangles));
				JArr st;
				for (auto& s : p.strips) st.raw(u16list(s));
				jp.raw("strips", st.done()).add("hasFaces", p.hasFaces);
				jp.add("nvw", p.vertexWeights.size()).add("nbi", p.boneIndices.size()).add("hasVW", p.hasVertexWeights).add("hasBI", p.hasBoneIndices);
				JArr bi, pw;
				for (auto& b : p.boneIndices) {
					JArr q;
					q.add((long long) b.i1).add((long long) b.i2).add((long long) b.i3).add((long long) b.i4);
					bi.add(q);
				}
				for (auto& w : p.vertexWeights) {
					JArr q;
					q.add((long long) w1000(w.w1)).add((long long) w1000(w.w2)).add((long long) w1000(w.w3)).add((long long) w1000(w.w4));
					pw.add(q);
				}
				jp.raw("bi", bi.done()).raw("pw", pw.done());
				parts.add(jp);
			}
		}
		if (auto bsd = dynamic_cast<BSDismemberSkinInstance*>(skinInst))
			for (auto& pi : bsd->partitions) {
				JArr q;
				q.add((long long) pi.partID).add((long long) pi.flags);
				dism.add(q);
			}
		o.add("isDismember", dynamic_cast<BSDismemberSkinInstance*>(skinInst) != nullptr);
	}
	else
		o.add("isDismember", false);
	o.add("hasSkinInst", skinInst != nullptr);
	o.raw("parts", parts.done()).add("mapped", mapped).raw("triParts", triParts.done()).raw("dismember", dism.done());
	o.add("partVertData", partVertData).add("partNumVerts", partNumVerts);
	// --- segments (FO4)
	JArr segs, segTri, segInfo;
	if (auto sit = dynamic_cast<BSSubIndexTriShape*>(shape)) {
		auto& sg = sit->*SegPeek::member();
		for (auto& s : sg.segments) {
			JObj js;
			js.add("start", (long long) s.startIndex).add("n", (long long) s.numPrimitives);
			JArr subs;
			for (auto& ss : s.subSegments) {
				JObj q;
				q.add("start", (long long) ss.startIndex).add("n", (long long) ss.numPrimitives);
				subs.add(q);
			}
			js.raw("subs", subs.done());
			segs.add(js);
		}
		o.add("segNumPrimitives", (long long) sg.numPrimitives);
		NifSegmentationInfo inf;
		std::vector<int> tp;
		sit->GetSegmentation(inf, tp);
		for (auto v : tp) segTri.add((long long) v);
		for (auto& s : inf.segs) {
			JObj q;
			q.add("id", (long long) s.partID);
			JArr subs;
			for (auto& ss : s.subs) subs.add((long long) ss.partID);
			q.raw("subs", subs.done());
			segInfo.add(q);
		}
	}
	o.raw("segs", segs.done()).raw("segTriParts", segTri.done()).raw("segInfo", segInfo.done());
	// locked normals list
	JArr locked;
	for (auto& ed : shape->extraDataRefs)
		if (auto ie = hdr.GetBlock<NiIntegersExtraData>(ed))
			if (ie->name == "LOCKEDNORM")
				for (auto v : ie->integersData) locked.add((long long) v);
	o.raw("locked", locked.done());
	return o.done();
}

NiShape* buildShape(NifFile& nif, const std::string& name, size_t nv, const std::vector<Triangle>& tris, bool withNormals) {
	std::vector<Vector3> v;
	std::vector<Vector2> uv;
	std::vector<Vector3> n;
	for (size_t i = 0; i < nv; i++) {
		v.emplace_back(float(i), 0.0f, 0.0f);
		uv.emplace_back(float(i % 8) * 0.125f, float((i / 8) % 8) * 0.125f); // exact in half precision
		n.emplace_back(0.0f, 0.0f, 1.0f);
	}
	return nif.CreateShapeFromData(name, &v, &tris, &uv, withNormals ? &n : nullptr);
}

bool skinShape(NifFile& nif, NiShape* shape, size_t nbones, const std::function<std::vector<std::pair<int, float>>(uint16_t)>& weightsOf) {
	MatTransform t;
	std::vector<int> boneIds;
	for (size_t b = 0; b < nbones; b++) {
		auto node = nif.AddNode("Bone" + std::to_string(b), t);
		boneIds.push_back((int) nif.GetBlockID(node));
	}
	nif.CreateSkinning(shape);
	nif.SetShapeBoneIDList(shape, boneIds);
	uint16_t nv = shape->GetNumVertices();
	auto bs = dynamic_cast<BSTriShape*>(shape);
	if (bs) {
		for (uint16_t v = 0; v < nv; v++) {
			auto ws = weightsOf(v);
			std::vector<uint8_t> ids;
			std::vector<float> w;
			// a vertex record holds four slots: the four strongest influences (the caller lists them strongest first)
			if (ws.size() > 4) ws.resize(4);
			for (auto& p : ws) {
				ids.push_back((uint8_t) p.first);
				w.push_back(p.second);
			}
			nif.SetShapeVertWeights(shape->name.get(), v, ids, w);
		}
	}
	// NiSkinData (where the version has it) carries the same weights, as in files written by the games' tools
	if (nif.GetHeader().GetBlock<NiSkinInstance>(shape->SkinInstanceRef())) {
		for (size_t b = 0; b < nbones; b++) {
			std::unordered_map<uint16_t, float> m;
			for (uint16_t v = 0; v < nv; v++)
				for (auto& p : weightsOf(v))
					if (p.first == (int) b) m[v] = p.second;
			nif.SetShapeBoneWeights(shape->name.get(), (uint32_t) b, m);
		}
	}
	nif.UpdateSkinPartitions(shape);
	return true;
}
void addStripsShape(NifFile& nif) {
	// an NiTriStrips shape: a 3x3 grid stitched into one strip with degenerate stitches, plus a second plain strip
	auto data = std::make_unique<NiTriStripsData>();
	std::vector<Vector3> v;
	std::vector<Vector2> uv;
	std::vector<Vector3> n;
	for (int y = 0; y < 3; y++)
		for (int x = 0; x < 3; x++) {
			v.emplace_back(float(x), float(y), 5.0f);
			uv.emplace_back(0.5f * float(x), 0.5f * float(y));
			n.emplace_back(0.0f, 0.0f, 1.0f);
		}
	data->Create(nif.GetHeader().GetVersion(), &v, nullptr, &uv, &n);
	// (a short strip first: the winding of a strip's triangles depends on the position inside that strip only)
	data->stripsInfo.points = {{0, 1, 3}, {0, 3, 1, 4, 2, 5, 5, 3, 3, 6, 4, 7, 5, 8}, {4, 5, 7, 8}};
	data->stripsInfo.stripLengths.clear();
	for (auto& p : data->stripsInfo.points) {
		uint16_t l = (uint16_t) p.size();
		data->stripsInfo.stripLengths.push_back(l);
	}
	data->stripsInfo.hasPoints = true;
	auto& hdr = nif.GetHeader();
	uint32_t did = hdr.AddBlock(std::move(data));
	auto shape = std::make_unique<NiTriStrips>();
	shape->name.get() = "Strips";
	shape->DataRef()->index = did;
	if (hdr.GetVersion().Stream() >= 83) { // (Skyrim and later: the shader hangs on the shape itself)
		auto tex = std::make_unique<BSShaderTextureSet>(hdr.GetVersion());
		auto sh = std::make_unique<BSLightingShaderProperty>(hdr.GetVersion());
		sh->TextureSetRef()->index = hdr.AddBlock(std::move(tex));
		shape->ShaderPropertyRef()->index = hdr.AddBlock(std::move(sh));
	}
	uint32_t sid = hdr.AddBlock(std::move(shape));
	nif.GetRootNode()->childRefs.AddBlockRef(sid);
	nif.LinkGeomData();
}


} // namespace vh
