// C16: truncated files never crash the loader.
//   c16-tapes <out.ndjson> <synthStride>          field tapes (offsets of the loader's reads) of sample and synthesised files
//   c16-run <points.ndjson> <out.ndjson>          Load(prefix) + query battery + copy + save + destroy per crash point
#include "battery.hpp"
#include "synth.hpp"

using namespace nifly;
using namespace vh;

namespace {
// streambuf over a byte string that records the offset of every read request
struct TapeBuf : std::streambuf {
	const std::string& b;
	size_t pos = 0;
	std::vector<uint32_t> offs;
	explicit TapeBuf(const std::string& s) : b(s) {}
	std::streamsize xsgetn(char* s, std::streamsize n) override {
		offs.push_back((uint32_t) pos);
		size_t m = std::min<size_t>(size_t(n), b.size() - pos);
		memcpy(s, b.data() + pos, m);
		pos += m;
		return (std::streamsize) m;
	}
	int underflow() override { return pos < b.size() ? traits_type::to_int_type(b[pos]) : traits_type::eof(); }
	int uflow() override { return pos < b.size() ? traits_type::to_int_type(b[pos++]) : traits_type::eof(); }
};

// inputs: sample files by name, synthesised files as "synth:<type>:<ver>:<mode>"
// models with features none of the sample files has, made through the public API and written by the library
std::string builtBytes(const std::string& what) {
	NifFile nif;
	if (what == "fo4-subsegments") {
		if (nif.Load(samplePath("TestNifFile_Skinned_FO4.nif")) != 0) return "";
		for (auto sh : nif.GetShapes()) {
			auto sit = dynamic_cast<BSSubIndexTriShape*>(sh);
			if (!sit) continue;
			uint32_t nt = sit->GetNumTriangles();
			NifSegmentationInfo inf;
			inf.segs.resize(3);
			inf.segs[0].partID = 0;
			inf.segs[0].subs.resize(2);
			inf.segs[0].subs[0].partID = 1;
			inf.segs[0].subs[0].userSlotID = 30;
			inf.segs[0].subs[0].material = 0x12345;
			inf.segs[0].subs[1].partID = 2;
			inf.segs[1].partID = 3; // stays empty
			inf.segs[2].partID = 4;
			inf.ssfFile = "meshes\\c16\\built.ssf";
			std::vector<int> tp(nt);
			for (uint32_t i = 0; i < nt; i++) tp[i] = (i % 4 == 3) ? 4 : int(i % 4);
			NifFile::SetShapeSegments(sit, inf, tp);
		}
	}
	else if (what == "le-two-partitions") {
		if (nif.Load(samplePath("TestNifFile_Optimize_LE_to_SE.nif")) != 0) return "";
		for (auto sh : nif.GetShapes()) {
			NiVector<BSDismemberSkinInstance::PartitionInfo> pinfo;
			std::vector<int> tp;
			if (!nif.GetShapePartitions(sh, pinfo, tp) || pinfo.empty()) continue;
			BSDismemberSkinInstance::PartitionInfo pi;
			pi.partID = 38;
			pi.flags = PF_EDITOR_VISIBLE;
			pinfo.push_back(pi);
			for (size_t i = 0; i < tp.size(); i++) tp[i] = int(i % 2);
			nif.SetShapePartitions(sh, pinfo, tp);
			nif.UpdateSkinPartitions(sh);
		}
	}
	else
		return "";
	std::string f0 = saveToString(nif, true, true);
	NifFile re;
	if (loadFromString(re, f0) != 0) return "";
	return saveToString(re, false, false);
}

std::string inputBytes(const std::string& name) {
	if (name.compare(0, 6, "built:") == 0) return builtBytes(name.substr(6));
	if (name.compare(0, 6, "synth:") != 0) return readFile(samplePath(name));
	std::stringstream ss(name.substr(6));
	std::string type, ver, mode;
	std::getline(ss, type, '|');
	std::getline(ss, ver, '|');
	std::getline(ss, mode, '|');
	NifFile gen;
	if (!synthFile(gen, type, ver, atoi(mode.c_str()), 1)) return "";
	NifFile re;
	std::string f0 = saveToString(gen, false, false);
	if (loadFromString(re, f0) != 0) return "";
	return saveToString(re, false, false);
}

int cmdTapes(int argc, char** argv) {
	if (argc < 3) return 2;
	std::string outPath = argv[1];
	size_t stride = strtoul(argv[2], nullptr, 10);
	std::vector<std::string> names = sampleFiles();
	names.push_back("built:fo4-subsegments");
	names.push_back("built:le-two-partitions");
	auto types = allBlockTypes();
	const char* vers[] = {"OB", "FO3", "SK", "SSE", "FO4", "FO76", "SF"};
	uint64_t seed = seedFromEnv();
	for (size_t ti = 0; ti < types.size(); ti++)
		if (stride && ti % stride == seed % stride) names.push_back("synth:" + types[ti] + "|" + vers[(ti + seed) % 7] + "|" + std::to_string((ti + seed) % 3));
	{ Out trunc(outPath); }
	runForkedCases(
		names.size(), outPath, 60,
		[&](size_t k, std::string& out) {
			std::string bytes = inputBytes(names[k]);
			if (bytes.empty()) return;
			TapeBuf tb(bytes);
			std::istream is(&tb);
			NifFile nif;
			if (nif.Load(is) != 0) return;
			// a spread of at most 400 field offsets (all of them for short tapes)
			std::vector<uint32_t> o = tb.offs;
			std::sort(o.begin(), o.end());
			o.erase(std::unique(o.begin(), o.end()), o.end());
			size_t step = std::max<size_t>(1, o.size() / 400);
			JArr jo;
			for (size_t i = 0; i < o.size(); i += step) jo.add((long long) o[i]);
			JObj r;
			r.add("file", names[k]).add("len", (long long) bytes.size()).add("fields", (long long) o.size()).raw("offs", jo.done());
			out += r.done() + "\n";
		},
		[&](size_t, const std::string&, FILE*) {}, 2048);
	return 0;
}

int cmdRun(int argc, char** argv) {
	if (argc < 3) return 2;
	auto pts = readLines(argv[1]);
	std::string outPath = argv[2];
	// group by file so that each input is produced once
	std::map<std::string, std::string> cache;
	{ Out trunc(outPath); }
	struct P {
		std::string file;
		size_t k;
	};
	std::vector<P> ps;
	for (auto& l : pts) {
		JV c = jparse(l);
		ps.push_back({c["file"].s, (size_t) c["k"].n});
	}
	std::stable_sort(ps.begin(), ps.end(), [](const P& a, const P& b) { return a.file < b.file; });
	size_t crashes = runForkedCases(
		ps.size(), outPath, 25,
		[&](size_t i, std::string& out) {
			auto it = cache.find(ps[i].file);
			if (it == cache.end()) {
				cache.clear();
				it = cache.emplace(ps[i].file, inputBytes(ps[i].file)).first;
			}
			const std::string& bytes = it->second;
			if (ps[i].k >= bytes.size()) return;
			markPhase(1);
			std::string prefix = bytes.substr(0, ps[i].k);
			JObj ev;
			ev.add("e", "trunc").add("file", ps[i].file).add("k", (long long) ps[i].k);
			{
				NifFile nif;
				int rc = loadFromString(nif, prefix);
				ev.add("rc", rc).add("valid", nif.IsValid()).add("blocks", (long long) nif.GetHeader().GetNumBlocks());
				HeaderInfo h = parseHeader(prefix);
				ev.add("hdrBlocks", (long long) (h.ok ? h.nblocks : nif.GetHeader().GetNumBlocks()));
				int src = -1;
				if (rc == 0) {
					ContentIds ids;
					battery(nif, ids, false);
					NifFile copy(nif);
					battery(copy, ids, false);
					std::ostringstream os(std::ios::binary);
					src = copy.Save(os);
					std::ostringstream os2(std::ios::binary);
					NifSaveOptions raw;
					raw.optimize = false;
					raw.sortBlocks = false;
					nif.Save(os2, raw);
				}
				ev.add("save", src);
			} // destroyed here
			out += ev.done() + "\n";
		},
		[&](size_t i, const std::string& why, FILE* out) {
			if (lastCrashPhase() == 0) return; // producing the input failed: not a crash point of a valid file
			fprintf(out, "{\"e\":\"crash\",\"case\":{\"file\":%s,\"k\":%zu},\"why\":%s}\n", J::str(ps[i].file).s.c_str(), ps[i].k, J::str(why).s.c_str());
		},
		4096);
	printf("{\"points\":%zu,\"crashes\":%zu}\n", ps.size(), crashes);
	return 0;
}
Reg r1("c16-tapes", cmdTapes);
Reg r2("c16-run", cmdRun);
} // namespace
