-------------------------- MODULE StringTableTrace --------------------------
(* Exact conformance of the string-table machine: every line is one case of StringTableMC executed on a real NiHeader
   (the table, the references of the blocks and the stored maximum length after the start and after every op).
   The statements of StringTable.tla are evaluated on the recorded states; a recorded state that differs from the
   transcription's is model drift (reported, not a violation). *)
EXTENDS StringTable, TLC, Json, IOUtils
VARIABLE l
Tr == ndJsonDeserialize(IOEnv.TRACE)
R(ev) == Len(ev.c.idx)
File0(ev) == [tab |-> ev.c.tab, refs |-> [k \in 1..R(ev) |-> [idx |-> ev.c.idx[k], str |-> ""]], maxLen |-> MaxLenOf(ev.c.tab)]
Model(ev) == LET s0 == Fill_Exact(File0(ev), ev.c.old) IN <<s0>> \o Run(s0, ev.c.ops, ev.c.old)
Real(ev) == <<ev.start>> \o ev.states
Clauses(ev) ==
    CASE ev.e = "strings" ->
            (IF ev.c.old THEN {} ELSE FillViol(File0(ev), ev.start))
            \cup UNION {LET s == Real(ev)[j] t == Real(ev)[j + 1] op == ev.c.ops[j] IN
                          IF ev.c.old THEN {}
                          ELSE CASE op.k = "save" -> SaveViol(s, t, op.unk) \cup SaveTwiceViol(t, ev.again[j])
                                 [] op.k = "fill" -> FillViol(s, t)
                                 [] OTHER -> {} : j \in 1..Len(ev.c.ops)}
      [] ev.e = "crash" -> {"NoCrash"}
      [] OTHER -> {}
\* (versions without a header string table: the stored maximum length is not observable)
Strip(q, old) == IF old THEN [k \in 1..Len(q) |-> [tab |-> q[k].tab, refs |-> q[k].refs]] ELSE q
Exact(ev) == ev.e # "strings" \/ Strip(Real(ev), ev.c.old) = Strip(Model(ev), ev.c.old)
Init == l = 1
Next == /\ l <= Len(Tr)
        /\ LET v == Clauses(Tr[l]) IN IF v = {} THEN TRUE ELSE PrintT(ToJson([viol |-> l, clauses |-> v]))
        /\ IF Exact(Tr[l]) THEN TRUE ELSE PrintT(ToJson([drift |-> l, what |-> "string-table transcription differs from the library"]))
        /\ l' = l + 1
Spec == Init /\ [][Next]_l
=============================================================================
