---------------------------- MODULE StringTable ----------------------------
(***************************************************************************)
(* The header string table and the string references of the blocks         *)
(* (NiHeader::AddOrFindStringId, FillStringRefs, UpdateHeaderStrings,      *)
(* ClearStrings, UpdateMaxStringLength; src/BasicTypes.cpp) as a state     *)
(* machine of its own.                                                     *)
(*                                                                         *)
(*   state  [tab : Seq(STRING), refs : Seq([idx : Int, str : STRING]),     *)
(*           maxLen : Nat]                                                 *)
(*   refs   the NiStringRef objects of all blocks in block order; idx = -1 *)
(*          is "no index" (NIF_NPOS)                                       *)
(*                                                                         *)
(* The operators ending in _Exact transcribe the C++ statement by          *)
(* statement; TableViol / SaveViol / FillViol state what the machine is    *)
(* for (C07: indices inside the table, strings once, true maximum length;  *)
(* C03: with unknown blocks the table only grows and no existing index     *)
(* changes its meaning).  StringTableMC checks the transcription against   *)
(* those statements on every small state and op sequence and exports the   *)
(* sequences; the harness runs them on a real NiHeader and TLC compares    *)
(* the recorded states with the transcription's (exact conformance).       *)
(***************************************************************************)
EXTENDS Integers, Sequences, FiniteSets, SequencesExt

NoIdx == -1
V(cond, name) == IF cond THEN {} ELSE {name}
MaxLenOf(tab) == IF tab = <<>> THEN 0 ELSE CHOOSE m \in {Len(tab[k]) : k \in 1..Len(tab)} : \A k \in 1..Len(tab) : Len(tab[k]) <= m

\* first position of str in the table (0-based), or -1
Find(tab, str) == IF \E k \in 1..Len(tab) : tab[k] = str
                  THEN (CHOOSE k \in 1..Len(tab) : tab[k] = str /\ \A j \in 1..(k - 1) : tab[j] # str) - 1
                  ELSE NoIdx

\* NiHeader::AddOrFindStringId(str, addEmpty): [tab, id]
AddOrFind_Exact(tab, str, addEmpty) ==
    IF Find(tab, str) # NoIdx THEN [tab |-> tab, id |-> Find(tab, str)]
    ELSE IF ~addEmpty /\ str = "" THEN [tab |-> tab, id |-> NoIdx]
    ELSE [tab |-> Append(tab, str), id |-> Len(tab)]

\* NiHeader::GetStringById
GetById(tab, id) == IF id # NoIdx /\ id >= 0 /\ id < Len(tab) THEN tab[id + 1] ELSE ""

\* NiHeader::FillStringRefs (after reading a file): an index beyond the table is reduced by the table's length, once;
\* the reference takes the string of its index, or the empty string. Files older than 20.1.0.1 have inline strings.
FillRef(tab, r) == LET i == IF r.idx # NoIdx /\ r.idx >= Len(tab) THEN r.idx - Len(tab) ELSE r.idx
                   IN  [idx |-> i, str |-> GetById(tab, i)]
Fill_Exact(s, old) == IF old THEN s ELSE [s EXCEPT !.refs = [k \in 1..Len(s.refs) |-> FillRef(s.tab, s.refs[k])]]

\* NiHeader::UpdateHeaderStrings(hasUnknown) (before writing): without unknown blocks the table is rebuilt from the references
\* in block order; with unknown blocks it is kept and only grows. A reference that had an index keeps one even for the empty
\* string. (uint32 indices: the loop is a left fold over the references.)
RECURSIVE UpdateFrom(_, _, _)
UpdateFrom(tab, refs, k) ==
    IF k > Len(refs) THEN [tab |-> tab, refs |-> refs]
    ELSE LET r == AddOrFind_Exact(tab, refs[k].str, refs[k].idx # NoIdx)
         IN  UpdateFrom(r.tab, [refs EXCEPT ![k].idx = r.id], k + 1)
Update_Exact(s, unk, old) ==
    LET t0 == IF unk THEN s.tab ELSE <<>>
    IN  IF old THEN [s EXCEPT !.tab = t0, !.maxLen = IF unk THEN s.maxLen ELSE 0]
        ELSE LET u == UpdateFrom(t0, s.refs, 1) IN [tab |-> u.tab, refs |-> u.refs, maxLen |-> MaxLenOf(u.tab)]

(* ---- the operations of the machine ---- *)
\* op.k: "set" (r, s)  the string of reference r is replaced through the API
\*       "new" (r, s)  reference r is one of a freshly added block: no index, string s
\*       "add" (s, e)  AddOrFindStringId(s, e) called directly
\*       "save" (unk)  UpdateHeaderStrings(unk)
\*       "fill"        FillStringRefs (what a load does after reading table and indices)
Apply_Exact(s, op, old) ==
    CASE op.k = "set"  -> [s EXCEPT !.refs[op.r].str = op.s]
      [] op.k = "new"  -> [s EXCEPT !.refs[op.r] = [idx |-> NoIdx, str |-> op.s]]
      [] op.k = "add"  -> [s EXCEPT !.tab = AddOrFind_Exact(s.tab, op.s, op.e).tab]
      [] op.k = "save" -> Update_Exact(s, op.unk, old)
      [] op.k = "fill" -> Fill_Exact(s, old)
RECURSIVE Run(_, _, _)
\* the states after each op
Run(s, ops, old) == IF ops = <<>> THEN <<>> ELSE LET t == Apply_Exact(s, Head(ops), old) IN <<t>> \o Run(t, Tail(ops), old)

(* ---- what the machine is for ---- *)
\* after a save (s -> t) in a version with a string table
SaveViol(s, t, unk) ==
    \* every reference that carries text has an index, and every index designates the reference's text
    V(\A k \in 1..Len(t.refs) : t.refs[k].str # "" => t.refs[k].idx # NoIdx, "TextHasAnIndex")
    \cup V(\A k \in 1..Len(t.refs) : t.refs[k].idx = NoIdx \/ (t.refs[k].idx >= 0 /\ t.refs[k].idx < Len(t.tab)), "StringIndexInTable")
    \cup V(\A k \in 1..Len(t.refs) : t.refs[k].idx = NoIdx \/ t.refs[k].idx >= Len(t.tab) \/ t.tab[t.refs[k].idx + 1] = t.refs[k].str, "IndexDesignatesTheText")
    \cup V(\A k \in 1..Len(t.refs) : t.refs[k].str = s.refs[k].str, "SavingKeepsTheTexts")
    \cup V(t.maxLen = MaxLenOf(t.tab), "MaxStringLength")
    \* without unknown blocks: each string once, none unused
    \cup V(unk \/ \A a, b \in 1..Len(t.tab) : a # b => t.tab[a] # t.tab[b], "StringsOnce")
    \cup V(unk \/ \A a \in 1..Len(t.tab) : \E k \in 1..Len(t.refs) : t.refs[k].idx = a - 1, "NoUnusedString")
    \* with unknown blocks: every index that existed still denotes the same string (opaque payloads hold such indices)
    \cup V(~unk \/ IsPrefix(s.tab, t.tab), "ExistingStringIndicesKeepTheirStrings")
\* saving twice in a row: the second save keeps the table and what every reference denotes. (Not: every index. With
\* unknown blocks the table is kept, and a reference without an index whose text is empty takes the index of an empty
\* string that a *later* reference put into the table during the first save: -1 becomes that index on the second save.
\* Both denote the empty string; TLC shows this as the only way a second save differs from the first.)
Denotes(s, k) == IF s.refs[k].idx = NoIdx THEN "" ELSE GetById(s.tab, s.refs[k].idx)
SaveTwiceViol(t, u) == V(t.tab = u.tab /\ t.maxLen = u.maxLen /\ \A k \in 1..Len(t.refs) : Denotes(u, k) = Denotes(t, k) /\ u.refs[k].str = t.refs[k].str,
                         "SecondSaveKeepsTableAndMeanings")
                       \cup V(\A k \in 1..Len(t.refs) : u.refs[k].idx = t.refs[k].idx \/ (t.refs[k].idx = NoIdx /\ t.refs[k].str = ""), "SecondSaveOnlyIndexesEmptyTexts")
\* after FillStringRefs on a well-formed file (every index inside the table): the reference holds the text of its index
FillViol(s, t) ==
    V((\A k \in 1..Len(s.refs) : s.refs[k].idx = NoIdx \/ s.refs[k].idx < Len(s.tab))
          => \A k \in 1..Len(t.refs) : t.refs[k].idx = s.refs[k].idx /\ t.refs[k].str = GetById(s.tab, s.refs[k].idx), "ReferenceTakesTheTextOfItsIndex")
    \cup V(\A k \in 1..Len(t.refs) : t.refs[k].idx = NoIdx \/ t.refs[k].idx < Len(t.tab) \/ t.refs[k].str = "", "IndexBeyondTheTableGivesNoText")
StepViol(s, t, op, old) ==
    IF old THEN {}
    ELSE CASE op.k = "save" -> SaveViol(s, t, op.unk) \cup SaveTwiceViol(t, Update_Exact(t, op.unk, old))
           [] op.k = "fill" -> FillViol(s, t)
           [] OTHER -> {}
=============================================================================
