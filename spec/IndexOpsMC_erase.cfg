SPECIFICATION Spec
CONSTANTS Family = "erase"
 N = 6
 K = 0
 Export = TRUE
INVARIANT LawsHold
INVARIANT Emit
CHECK_DEADLOCK FALSE
