------------------------------- MODULE MeshMC -------------------------------
(***************************************************************************)
(* Enumeration of small labelled meshes and of the arguments of the mesh   *)
(* operations (C09 vertex subsets, C17 label lists, C10 partition          *)
(* assignments).  Every state is one case; the expected result of the      *)
(* naive definitions is exported with it (labels after Erase, triangles    *)
(* after MapTris) and the case is executed on real shapes of every         *)
(* geometry kind the versions create.                                      *)
(***************************************************************************)
EXTENDS MeshOps, Json
CONSTANTS Family, MaxV, MaxT, Sample, Phase
VARIABLE c
\* triangles with three distinct corners, smallest corner first (both windings)
TriSet(nv) == {<<a, b, d>> : a, b, d \in 0..(nv - 1)} \cap {t \in [1..3 -> 0..(nv - 1)] : t[1] < t[2] /\ t[1] < t[3] /\ t[2] # t[3]}
TriSeqs(nv, k) == UNION {[1..j -> TriSet(nv)] : j \in 0..k}
Meshes == UNION {{[nv |-> nv, tris |-> T] : T \in TriSeqs(nv, IF nv = MaxV THEN MaxT - 1 ELSE MaxT)} : nv \in 1..MaxV}
NonEmptySubsets(nv) == SubsetSeqs(0..(nv - 1)) \ {<<>>}
\* beyond the exhaustive bound: fixed meshes whose triangles interleave over the vertices (two skin partitions built from
\* alternate triangles get vertex maps that are not prefixes of the vertex list), with every subset of at most two indices
BigMeshes == {[nv |-> 7, tris |-> <<<<0, 2, 3>>, <<1, 4, 5>>, <<3, 5, 6>>, <<2, 4, 6>>>>],
              [nv |-> 8, tris |-> <<<<1, 3, 5>>, <<0, 2, 4>>, <<3, 5, 7>>, <<2, 4, 6>>, <<0, 1, 7>>>>],
              \* triangles with equal corners (exporters leave them behind): triangles like any other
              [nv |-> 6, tris |-> <<<<0, 1, 2>>, <<3, 3, 4>>, <<2, 4, 5>>, <<1, 1, 1>>, <<3, 4, 5>>>>]}
SmallSubsets(nv) == {<<a>> : a \in 0..(nv - 1)} \cup {q \in [1..2 -> 0..(nv - 1)] : q[1] < q[2]}
\* C17: segmentation info with ids permuted: seg A (+ two subs), seg B; label lists over the ids and -1
SegInfos == {<<[id |-> 0, subs |-> <<1, 2>>], [id |-> 3, subs |-> <<>>]>>, <<[id |-> 2, subs |-> <<0>>], [id |-> 1, subs |-> <<>>]>>,
             <<[id |-> 0, subs |-> <<>>]>>, <<[id |-> 1, subs |-> <<>>], [id |-> 0, subs |-> <<>>], [id |-> 2, subs |-> <<3>>]>>}
Labels(info) == {-1} \cup ToSet(FlatIds(info))
\* C13: the setter alphabet; each op comes in three value variants ("all": uvs, normals, tangents, bitangents and colours in one go,
\* the way a tool fills a shape after giving it new vertices)
SetOps == {[op |-> o, v |-> v] : o \in {"verts", "vertsN", "uvs", "normals", "tangents", "bitangents", "colors", "eye", "tris", "reload", "all"}, v \in 0..2}
Cases ==
    CASE Family = "delverts" -> UNION {{[k |-> "delverts", nv |-> m.nv, tris |-> m.tris, I |-> I] : I \in NonEmptySubsets(m.nv)} : m \in Meshes}
                                \cup UNION {{[k |-> "delverts", nv |-> m.nv, tris |-> m.tris, I |-> I] : I \in SmallSubsets(m.nv)} : m \in BigMeshes}
      [] Family = "segments" -> UNION {{[k |-> "segments", nt |-> nt, info |-> info, L |-> L] : L \in [1..nt -> Labels(info)]} : nt \in 0..MaxT, info \in SegInfos}
      [] Family = "setget" -> {[k |-> "setget", h |-> h] : h \in UNION {[1..n -> SetOps] : n \in 1..MaxT}}
      [] Family = "convert" -> {x \in {[k |-> "convert", toSSE |-> d, headParts |-> hp, removeParallax |-> rp, calcBounds |-> cb, fixBSX |-> fb, fixShader |-> fs,
                                        skinned |-> sk, colors |-> co, strips |-> st, parts |-> pa, dupNames |-> dn, manyBones |-> mb, odd |-> od] :
                                            d, hp, rp, cb, fb, fs, sk, co, st, pa, dn, mb \in BOOLEAN, od \in {"", "rootLater", "uncovered", "sharedData", "twoSided", "slotWeights"}} :
                                    \* odd: the file stores a data block in front of its root / a skinned shape has triangles its partitions do
                                    \* not list (geometry edited without a partition rebuild) / two shapes share one geometry data block
                                    /\ (x.manyBones => (x.skinned /\ ~x.headParts /\ ~x.dupNames /\ ~x.strips))
                                    \* twoSided: every triangle also with the opposite winding; slotWeights (SE to LE): no weights in the skin
                                    \* data block, and in the vertex records empty weight slots in front of used ones
                                    /\ (x.odd # "" => ((x.toSSE = (x.odd # "slotWeights")) /\ ~x.headParts /\ ~x.dupNames /\ ~x.strips /\ ~x.manyBones /\ ~x.removeParallax /\ ~x.fixBSX))
                                    /\ (x.odd \in {"uncovered", "twoSided", "slotWeights"} => x.skinned)}
      [] Family = "partassign" -> UNION {{[k |-> "partassign", nt |-> nt, np |-> np, L |-> L] : L \in [1..nt -> -1..np]} : nt \in 1..(MaxT - 1), np \in 1..3}
Expected(x) ==
    CASE x.k = "delverts" -> [labels |-> Erase(Iota(x.nv), x.I), tris |-> MapTris(x.tris, CollapseMap(x.I, x.nv))]
      [] x.k = "segments" -> [newLabels |-> [i \in 1..x.nt |-> NewLabel(x.info, x.L[i])]]
      [] x.k = "partassign" -> [n |-> x.nt]
      [] x.k = "setget" -> [n |-> Len(x.h)]
      [] x.k = "convert" -> [n |-> 0]
Hash(x) == (x.nv * 7 + Len(x.tris) * 13 + Len(x.I) * 3 + (IF Len(x.I) > 0 THEN x.I[1] ELSE 0) + FoldLeft(LAMBDA a, t : a + t[1] + 2 * t[2] + 3 * t[3], 0, x.tris))
BoolN(b) == IF b THEN 1 ELSE 0
ConvHash(x) == 3 * BoolN(x.manyBones) + BoolN(x.headParts) + 2 * BoolN(x.removeParallax) + 4 * BoolN(x.calcBounds) + 8 * BoolN(x.fixBSX) + 16 * BoolN(x.fixShader) + 32 * BoolN(x.dupNames) + 64 * BoolN(x.strips)
Picked(x) == Sample = 1 \/ (IF x.k = "delverts" THEN Hash(x) % Sample = Phase % Sample ELSE IF x.k = "convert" THEN (x.odd # "" \/ ConvHash(x) % Sample = Phase % Sample) ELSE TRUE)
Init == c \in Cases
Next == UNCHANGED c
Spec == Init /\ [][Next]_c
Emit == Picked(c) => PrintT(ToJson([c |-> c, exp |-> Expected(c)]))
=============================================================================
