------------------------------ MODULE XformMC ------------------------------
(***************************************************************************)
(* Enumeration of the exact lattice for C20.  Every state is one case; TLC  *)
(* checks the algebraic law on the exact model (design level) and exports   *)
(* the case with the exact expected values for replay on the C++ functions. *)
(***************************************************************************)
EXTENDS Xform, TLC, Json
CONSTANTS Family, Export, Quick
VARIABLES c, ok

I3 == 1..3
\* the 24 axis rotations: signed permutation matrices with determinant +1
Perm3 == {p \in [I3 -> I3] : \A a, b \in I3 : a # b => p[a] # p[b]}
SignedPerm(p, sg) == [i \in I3 |-> [j \in I3 |-> IF p[i] = j THEN QI(sg[i]) ELSE QI(0)]]
AxisRots == {m \in {SignedPerm(p, sg) : p \in Perm3, sg \in [I3 -> {-1, 1}]} : Det(m) = QI(1)}
\* Pythagorean rotations: cos = 3/5, sin = 4/5 (so both cosine branches of RotMatToVec are reached)
Rz35 == <<<<Q(3, 5), Q(4, 5), QI(0)>>, <<Q(-4, 5), Q(3, 5), QI(0)>>, <<QI(0), QI(0), QI(1)>>>>
Rx35 == <<<<QI(1), QI(0), QI(0)>>, <<QI(0), Q(3, 5), Q(4, 5)>>, <<QI(0), Q(-4, 5), Q(3, 5)>>>>
Ry513 == <<<<Q(5, 13), QI(0), Q(-12, 13)>>, <<QI(0), QI(1), QI(0)>>, <<Q(12, 13), QI(0), Q(5, 13)>>>>
Pyth == {Rz35, Rx35, Ry513, MatMul(Rz35, Rx35), MatMul(Rx35, Ry513)}
Rots == AxisRots \cup {MatMul(P, A) : P \in Pyth, A \in AxisRots}
SomeAxis == {SignedPerm([i \in I3 |-> i], <<1, 1, 1>>), SignedPerm(<<2, 3, 1>>, <<1, 1, 1>>), SignedPerm(<<2, 1, 3>>, <<1, 1, -1>>)}
RotsSmall == SomeAxis \cup {MatMul(P, A) : P \in {Rz35, MatMul(Rz35, Rx35)}, A \in SomeAxis}
Scales == {Q(1, 4), Q(1, 2), QI(1), QI(2), QI(4)}
ScalesSmall == {Q(1, 2), QI(1), QI(2)}
Trans == {<<QI(x), QI(y), QI(z)>> : x, y, z \in {-2, 0, 1}}
TransSmall == {<<QI(0), QI(0), QI(0)>>, <<QI(1), QI(-2), QI(0)>>, <<QI(-1), QI(1), QI(2)>>}
Transforms == {[t |-> t, R |-> r, s |-> s] : t \in (IF Quick THEN TransSmall \cup {<<QI(-2), QI(1), QI(1)>>} ELSE Trans), r \in Rots, s \in Scales}
TransformsA == {[t |-> t, R |-> r, s |-> s] : t \in (IF Quick THEN {<<QI(1), QI(-2), QI(0)>>} ELSE TransSmall), r \in Rots, s \in ScalesSmall}
TransformsB == {[t |-> t, R |-> r, s |-> s] : t \in TransSmall, r \in RotsSmall, s \in ScalesSmall}
Vecs == {<<QI(1), QI(0), QI(0)>>, <<QI(-2), QI(3), QI(1)>>}
SmallMats == {m \in {[i \in I3 |-> [j \in I3 |-> QI(e[(i - 1) * 3 + j])]] : e \in [1..9 -> {-1, 0, 1}]} : Det(m) # QI(0)}
GridPts == {<<x, y, z>> : x, y, z \in {-2, 0, 3}}
PointSets == UNION {[1..n -> GridPts] : n \in 1..3}

Cases ==
    CASE Family = "inv"    -> {[k |-> "inv", T |-> T] : T \in Transforms}
      [] Family = "comp"   -> {[k |-> "comp", A |-> A, B |-> B, v |-> v] : A \in TransformsA, B \in TransformsB, v \in Vecs}
      [] Family = "mat"    -> {[k |-> "mat", M |-> M] : M \in SmallMats}
      [] Family = "rot"    -> {[k |-> "rot", R |-> R, half |-> (Trace3(R) = QI(-1))] : R \in Rots}
      [] Family = "sphere" -> {[k |-> "sphere", P |-> P] : P \in PointSets}

Law(x) ==
    CASE x.k = "inv"    -> Compose(x.T, Inverse(x.T)) = IdT /\ Compose(Inverse(x.T), x.T) = IdT
      [] x.k = "comp"   -> Apply(Compose(x.A, x.B), x.v) = Apply(x.A, Apply(x.B, x.v))
      [] x.k = "mat"    -> MatMul(x.M, MatInv(x.M)) = IdM /\ MatMul(MatInv(x.M), x.M) = IdM
      [] x.k = "rot"    -> IsRotation(x.R)
      [] x.k = "sphere" -> TRUE

Expected(x) ==
    CASE x.k = "inv"    -> [inv |-> Inverse(x.T)]
      [] x.k = "comp"   -> [comp |-> Compose(x.A, x.B), av |-> Apply(Compose(x.A, x.B), x.v)]
      [] x.k = "mat"    -> [inv |-> MatInv(x.M), det |-> Det(x.M)]
      [] x.k = "rot"    -> [R |-> x.R]
      [] x.k = "sphere" -> [n |-> Len(x.P)]

Init == c \in Cases /\ ok = Law(c)
Next == UNCHANGED <<c, ok>>
Spec == Init /\ [][Next]_<<c, ok>>
LawsHold == ok
Emit == Export => PrintT(ToJson([c |-> c, exp |-> Expected(c)]))
=============================================================================
