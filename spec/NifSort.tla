------------------------------ MODULE NifSort ------------------------------
(***************************************************************************)
(* Transcription of the block sorter (src/NifFile.cpp: SetShapeOrder,      *)
(* SetSortIndices, SortNiObjectNET, SortAVObject, SortCollision,           *)
(* SortShape, SortGraph, PrettySortBlocks) over the block kinds of the     *)
(* "sort" alphabet of NifGraphMC:                                          *)
(*   NiNode / BSOrderedNode   refs = <<controller, collision>> \o children *)
(*   NiTriShape               refs = <<controller, collision, data, skin,  *)
(*                                     shader, alpha>>                     *)
(*   bhkCollisionObject       refs = <<body>>,  ptrs = <<target>>          *)
(*   bhkRigidBody             refs = <<shape>> \o constraints              *)
(*   bhkHingeConstraint       refs = <<>>,      ptrs = entities            *)
(*   anything else            refs in GetChildIndices order                *)
(* (no controller, shader or skin-instance kinds: for those the C++ has    *)
(* further special cases that this alphabet never reaches).  References    *)
(* may be ill-typed, dangling or cyclic: GetBlock<T>() of the C++ is the   *)
(* guard Has(..) /\ kind test here.                                        *)
(*                                                                         *)
(* The sorter is a depth-first walk with mutable state; the transcription  *)
(* threads a record q = [g, vis, ni, next, active, fuel, div, old, rso]    *)
(* through mutually recursive operators.  Every call burns one unit of     *)
(* fuel; running out sets div: a modelled non-termination / stack overflow *)
(* (C15).  The result is the new order (old index -> new index) and the    *)
(* graph with re-ordered child lists, then NiHeader::SetBlockOrder.        *)
(***************************************************************************)
EXTENDS NifGraph

IsShapeB(b) == b.type = "NiTriShape"
IsColObj(b) == b.type = "bhkCollisionObject"                      \* dynamic_cast<NiCollisionObject*>
IsConstraintB(b) == b.type = "bhkHingeConstraint"                 \* dynamic_cast<bhkConstraint*>
IsRefObj(b) == b.type \in {"bhkRigidBody", "bhkHingeConstraint"}  \* HasType<bhkRefObject>()
ChildBefore(b) == IsRefObj(b) /\ ~IsConstraintB(b)

Blk(q, i) == q.g.blocks[i + 1]
Has(q, i) == i >= 0 /\ i < N(q.g)                                 \* hdr.GetBlock<NiObject>(i) # nullptr
Assign(q, i) == IF i \in q.vis THEN q ELSE [q EXCEPT !.ni[i + 1] = q.next, !.next = q.next + 1, !.vis = q.vis \cup {i}]
Tick(q) == [q EXCEPT !.fuel = q.fuel - 1]
IsPermOf(a, b) == Len(a) = Len(b) /\ \A x \in ToSet(a) \cup ToSet(b) :
                      Cardinality({k \in 1..Len(a) : a[k] = x}) = Cardinality({k \in 1..Len(b) : b[k] = x})

RECURSIVE SSI(_, _), SSIList(_, _), SortCollision(_, _), ColEntities(_, _), ColChildren(_, _, _)

\* for (auto& c : list) SetSortIndices(c, sortState);
SSIList(q, L) == IF L = <<>> THEN q ELSE SSIList(SSI(q, Head(L)), Tail(L))

\* SortAVObject on a node or shape: controller slot (no controller kinds here), then the collision object
SortAV(q, i) ==
    LET b  == Blk(q, i)
        q1 == SSI(q, b.refs[1])
        c  == b.refs[2]
    IN  IF Has(q1, c) /\ IsColObj(Blk(q1, c)) THEN SortCollision(q1, c) ELSE q1

\* the new child list of SortGraph: nodes (OB/FO3: nodes that have a non-empty child entry), shapes (root: the given order if it is a
\* permutation of them), the remaining existing blocks once each, then the empty entries; dangling entries are dropped
Reorder(q, kids, isRoot) ==
    LET nodes  == SelectSeq(kids, LAMBDA k : Has(q, k) /\ IsNode(Blk(q, k)) /\ (~q.old \/ \E j \in 3..Len(Blk(q, k).refs) : Blk(q, k).refs[j] # NPOS))
        shapes == SelectSeq(kids, LAMBDA k : Has(q, k) /\ IsShapeB(Blk(q, k)))
        sh2    == IF isRoot /\ Len(q.rso) = Len(shapes) /\ IsPermOf(shapes, q.rso) THEN q.rso ELSE shapes
        first  == nodes \o sh2
        others == FoldLeft(LAMBDA acc, k : IF ~Contains(acc, k) /\ Has(q, k) THEN Append(acc, k) ELSE acc, first, kids)
    IN  others \o SelectSeq(kids, LAMBDA k : k = NPOS)

SortGraph(q, i) ==
    LET q1   == SortAV(q, i)
        b    == Blk(q1, i)
        kids == SubSeq(b.refs, 3, Len(b.refs))
    IN  IF kids = <<>> THEN q1
        ELSE LET nk == IF b.type = "BSOrderedNode" THEN kids ELSE Reorder(q1, kids, i = 0)
                 q2 == [q1 EXCEPT !.g.blocks[i + 1].refs = SubSeq(b.refs, 1, 2) \o nk]
             IN  SSIList(q2, Blk(q2, i).refs)

SortShape(q, i) ==
    LET q1 == SortAV(q, i)
        b  == Blk(q1, i)
    IN  SSIList(SSI(SSI(SSI(SSI(q1, b.refs[3]), b.refs[4]), b.refs[5]), b.refs[6]), b.refs)

\* NifFile::SetSortIndices(uint32_t refIndex, SortState&)
SSI(q0, i) ==
    IF q0.fuel <= 0 THEN [q0 EXCEPT !.div = TRUE]
    ELSE LET q == Tick(q0) IN
         IF ~Has(q, i) \/ i \in q.vis THEN q
         ELSE LET b == Blk(q, i) IN
              IF IsColObj(b) THEN SortCollision(q, i)
              ELSE LET q1 == Assign(q, i) IN
                   IF IsNode(b) THEN SortGraph(q1, i)
                   ELSE IF IsShapeB(b) THEN SortShape(q1, i)
                   ELSE SSIList(q1, b.refs)                       \* default child sorting

\* NifFile::SortCollision(parent, parentIndex, SortState&): entities of constraints first, then the children that go
\* before their parent (bhkRefObject that is no constraint), the parent, the other children
ColEntities(q, L) ==
    IF L = <<>> THEN q
    ELSE LET e == Head(L) IN ColEntities(IF Has(q, e) /\ e \notin q.vis THEN SortCollision(q, e) ELSE q, Tail(L))
ColChildren(q, L, before) ==
    IF L = <<>> THEN q
    ELSE LET c == Head(L) IN
         ColChildren(IF Has(q, c) /\ c \notin q.vis /\ (ChildBefore(Blk(q, c)) = before) THEN SortCollision(q, c) ELSE q, Tail(L), before)
SortCollision(q0, p) ==
    IF q0.fuel <= 0 THEN [q0 EXCEPT !.div = TRUE]
    ELSE LET q == Tick(q0) IN
         IF p \in q.active THEN q                                 \* a block referencing itself or an ancestor
         ELSE LET qa == [q EXCEPT !.active = q.active \cup {p}]
                  b  == Blk(qa, p)
                  q1 == IF IsConstraintB(b) THEN ColEntities(qa, b.ptrs) ELSE qa
                  q2 == ColChildren(q1, b.refs, TRUE)
                  q3 == Assign(q2, p)
                  q4 == ColChildren(q3, b.refs, FALSE)
              IN  [q4 EXCEPT !.active = q4.active \ {p}]

Start(s, old, rso, fuel) ==
    [g |-> s, vis |-> {}, ni |-> [k \in 1..N(s) |-> k - 1], next |-> 0, active |-> {}, fuel |-> fuel, div |-> FALSE, old |-> old, rso |-> rso]
\* blocks never reached from the walk keep their relative order behind the reached ones
RECURSIVE Leftovers(_, _)
Leftovers(q, i) == IF i >= N(q.g) THEN q ELSE Leftovers(Assign(q, i), i + 1)
Finish(q) == LET r == SetBlockOrder_Exact(q.g, q.ni) IN [t |-> r.t, W |-> r.W, div |-> q.div, p |-> q.ni]

HasParentNode(s, i) == \E k \in 1..N(s) : IsNode(s.blocks[k]) /\ \E j \in 3..Len(s.blocks[k].refs) : s.blocks[k].refs[j] = i
\* NifFile::PrettySortBlocks: every node that no node lists as a child is a starting point, in block order
PrettySort_Exact(s, old, fuel) ==
    IF N(s) = 0 THEN [t |-> s, W |-> <<>>, div |-> FALSE, p |-> <<>>]
    ELSE LET roots == SelectSeq([k \in 1..N(s) |-> k - 1], LAMBDA i : IsNode(s.blocks[i + 1]) /\ ~HasParentNode(s, i))
         IN  Finish(Leftovers(SSIList(Start(s, old, <<>>, fuel), roots), 0))

\* NifFile::SetShapeOrder(names): the walk starts at GetRootNode() only; names that designate no shape are skipped
ShapeIdx(s) == SelectSeq([k \in 1..N(s) |-> k - 1], LAMBDA i : IsShapeB(s.blocks[i + 1]))
FindShape(s, nm) == LET S == SelectSeq(ShapeIdx(s), LAMBDA i : s.blocks[i + 1].name = nm) IN IF S = <<>> THEN NPOS ELSE S[1]
SetShapeOrder_Exact(s, old, names, fuel) ==
    IF names = <<>> \/ Len(names) # Len(ShapeIdx(s)) THEN [t |-> s, W |-> IdW(N(s)), div |-> FALSE, p |-> [k \in 1..N(s) |-> k - 1]]
    ELSE LET rso  == SelectSeq([k \in 1..Len(names) |-> FindShape(s, names[k])], LAMBDA i : i # NPOS)
             q0   == Start(s, old, rso, fuel)
             root == RootIndex(s)
         IN  Finish(Leftovers(IF root = NPOS THEN q0 ELSE SSI(q0, root), 0))
=============================================================================
