---------------------------- MODULE IndexOps ----------------------------
(***************************************************************************)
(* Naive mathematical definitions of nifly's index utilities               *)
(* (include/NifUtil.hpp): erase / insert by a sorted index list, collapse  *)
(* and expand maps, triangle remapping, map-key remapping, strip           *)
(* expansion.  All positions are 0-based as in the C++ code; TLA+          *)
(* sequences are 1-based, hence the +1/-1.                                  *)
(*                                                                         *)
(* These operators are the oracle of property C18 and are reused by        *)
(* MeshOps (C09, C10, C17).                                                *)
(***************************************************************************)
EXTENDS Integers, Sequences, FiniteSets, SequencesExt

IsSortedStrict(I) == \A k \in 1..(Len(I) - 1) : I[k] < I[k + 1]
Iota(n) == [k \in 1..n |-> k - 1]                      \* <<0, 1, .., n-1>>
SortedSeq(S) == SetToSortSeq(S, LAMBDA a, b : a < b)
SubsetSeqs(S) == {SortedSeq(T) : T \in SUBSET S}       \* all strictly ascending lists over S

(* ---- erase / insert ---------------------------------------------------- *)
\* Erase(v, I): v without the elements at the (0-based) positions listed in I.
\* Positions outside v are ignored.
Erase(v, I) ==
    LET P == SortedSeq({k \in 1..Len(v) : (k - 1) \notin ToSet(I)})
    IN  [j \in 1..Len(P) |-> v[P[j]]]

\* I is a valid insertion list for v: sorted, and every position lies inside the grown vector.
InsertValid(v, I) == IsSortedStrict(I) /\ (Len(I) = 0 \/ I[Len(I)] < Len(v) + Len(I))

\* r is a result of inserting fresh slots at positions I into v: the slots at I are unconstrained,
\* everything else is v in order.  ("erase then re-insert restores positions")
IsInsertOf(r, v, I) == Len(r) = Len(v) + Len(I) /\ Erase(r, I) = v

\* A canonical insert result with a hole marker, for replay expectations.
InsertWith(v, I, hole) ==
    LET n == Len(v) + Len(I)
        Rank(p) == Cardinality({q \in 0..(p - 1) : q \notin ToSet(I)})   \* survivors before p
    IN  [k \in 1..n |-> IF (k - 1) \in ToSet(I) THEN hole ELSE v[Rank(k - 1) + 1]]

(* ---- collapse / expand maps --------------------------------------------- *)
\* CollapseMap(I, n)[s] = new position of old element s after erasing I, or -1 if s is erased.
CollapseMap(I, n) ==
    [k \in 1..n |-> IF (k - 1) \in ToSet(I) THEN -1
                    ELSE Cardinality({q \in 0..(k - 2) : q \notin ToSet(I)})]

\* ExpandMap(I, n)[s] = position of old element s after inserting slots at I: the s-th natural not in I.
ExpandMap(I, n) ==
    [k \in 1..n |-> CHOOSE d \in 0..(n + Len(I)) :
                        d \notin ToSet(I) /\ Cardinality({q \in 0..(d - 1) : q \notin ToSet(I)}) = k - 1]

(* ---- triangles ----------------------------------------------------------- *)
TriAlive(t, m) == \A c \in 1..3 : t[c] < Len(m) /\ m[t[c] + 1] >= 0
MapTri(t, m) == <<m[t[1] + 1], m[t[2] + 1], m[t[3] + 1]>>
\* triangles whose corners all survive, renumbered, in their original order
MapTris(T, m) == LET A == SelectSeq(T, LAMBDA t : TriAlive(t, m)) IN [k \in 1..Len(A) |-> MapTri(A[k], m)]
\* 0-based positions of the removed triangles, ascending
DeletedTris(T, m) == SortedSeq({k - 1 : k \in {j \in 1..Len(T) : ~TriAlive(T[j], m)}})

(* ---- map keys ------------------------------------------------------------- *)
\* A keyed map is a set of <<key, value>> pairs with distinct keys.
NewKey(k, m, off) == IF k >= Len(m) THEN k + off ELSE m[k + 1]
KeyAlive(k, m) == k >= Len(m) \/ m[k + 1] >= 0
MapKeys(M, m, off) == {<<NewKey(p[1], m, off), p[2]>> : p \in {q \in M : KeyAlive(q[1], m)}}
KeysCollide(M, m, off) == \E p, q \in M : p # q /\ KeyAlive(p[1], m) /\ KeyAlive(q[1], m)
                                         /\ NewKey(p[1], m, off) = NewKey(q[1], m, off)

(* ---- strips --------------------------------------------------------------- *)
\* One strip: candidate i (0-based, i >= 2) is (s[i-2], s[i-1], s[i]) for even i and (s[i-2], s[i], s[i-1]) for odd i;
\* degenerate candidates (two equal corners) are dropped.
StripCands(s) == [k \in 3..Len(s) |-> IF (k - 1) % 2 = 0 THEN <<s[k - 2], s[k - 1], s[k]>>
                                                         ELSE <<s[k - 2], s[k], s[k - 1]>>]
\* (the function above has domain 3..Len(s); shift it to a sequence)
StripCandSeq(s) == IF Len(s) < 3 THEN <<>> ELSE [j \in 1..(Len(s) - 2) |-> StripCands(s)[j + 2]]
NonDegenerate(t) == t[1] # t[2] /\ t[2] # t[3] /\ t[3] # t[1]
StripTris(strips) == FlattenSeq([k \in 1..Len(strips) |-> SelectSeq(StripCandSeq(strips[k]), NonDegenerate)])

(* ---- laws (checked by TLC over the exhaustive small domain in IndexOpsMC) -- *)
LawEraseLen(v, I) == Len(Erase(v, I)) = Len(v) - Cardinality(ToSet(I) \cap (0..(Len(v) - 1)))
LawInsertErase(v, I) == InsertValid(v, I) => IsInsertOf(InsertWith(v, I, -7), v, I)
LawCollapse(I, n) ==
    LET m == CollapseMap(I, n)
        S == {k \in 1..n : m[k] >= 0}
    IN  /\ \A k \in 1..n : (m[k] = -1) <=> ((k - 1) \in ToSet(I))
        /\ \A a, b \in S : a < b => m[a] < m[b]                        \* monotone on survivors
        /\ {m[k] : k \in S} = 0..(Cardinality(S) - 1)                  \* onto an initial segment
        /\ \A k \in S : Erase(Iota(n), I)[m[k] + 1] = k - 1            \* agrees with Erase
LawExpandCollapse(I, n) ==
    (IsSortedStrict(I) /\ (Len(I) = 0 \/ I[Len(I)] < n + Len(I))) =>
        LET e == ExpandMap(I, n)
            c == CollapseMap(I, n + Len(I))
        IN  \A k \in 1..n : c[e[k] + 1] = k - 1
LawMapTrisCollapse(T, I, n) ==
    LET m == CollapseMap(I, n)
    IN  /\ Len(MapTris(T, m)) + Len(DeletedTris(T, m)) = Len(T)
        /\ \A k \in 1..Len(T) : ((k - 1) \in ToSet(DeletedTris(T, m))) <=>
                                 (\E c \in 1..3 : T[k][c] >= n \/ T[k][c] \in ToSet(I))
LawStrips(strips) ==
    /\ \A k \in 1..Len(StripTris(strips)) : NonDegenerate(StripTris(strips)[k])
    /\ Len(StripTris(strips)) <= FoldLeft(LAMBDA acc, s : acc + (IF Len(s) < 3 THEN 0 ELSE Len(s) - 2), 0, strips)
=============================================================================
