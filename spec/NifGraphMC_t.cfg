SPECIFICATION Spec
CONSTANTS MaxBlocks = 3
 HasSizes = TRUE
 Rich = TRUE
 Export = FALSE
INVARIANT Refines
INVARIANT MirrorInv
ACTION_CONSTRAINT Emit
VIEW View
CHECK_DEADLOCK FALSE
