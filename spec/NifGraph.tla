----------------------------- MODULE NifGraph -----------------------------
(***************************************************************************)
(* The block graph of a NIF model and the header tables that mirror it.    *)
(*                                                                         *)
(* A state is a record                                                     *)
(*   [hs     : BOOLEAN          the version carries a per-block size table *)
(*    types  : Seq(STRING)      header block-type names                    *)
(*    tidx   : Seq(Nat)         per-block index into types (0-based)       *)
(*    sz     : Seq(Nat)         per-block size entries (<<>> if ~hs)       *)
(*    blocks : Seq([type, refs : Seq(Int), ptrs : Seq(Int)])]              *)
(* Block indices are 0-based as in the C++ code, -1 is NIF_NPOS.  refs are *)
(* the owning references in enumeration order (GetChildIndices), ptrs the  *)
(* weak pointers.  States are identity-free: every operation also yields a *)
(* witness W (old position -> new position, 0 = deleted) and the step      *)
(* relations are stated over (s, W, t).  In implementation traces blocks   *)
(* additionally carry a uid and W is derived from the uids.                *)
(*                                                                         *)
(*  X_Exact   : transcription of the C++ (src/BasicTypes.cpp:219-562,      *)
(*              include/BasicTypes.hpp:1118-1140, src/NifFile.cpp:726-757) *)
(*  XAllowed  : what the properties (C04, C06, C15) demand of the step     *)
(***************************************************************************)
EXTENDS Integers, Sequences, FiniteSets, SequencesExt, TLC

NPOS == -1
N(s) == Len(s.blocks)
RmAt(q, i) == [k \in 1..(Len(q) - 1) |-> IF k < i THEN q[k] ELSE q[k + 1]]     \* remove 1-based position i
InRange(s, r) == r >= 0 /\ r < N(s)
IdW(n) == [k \in 1..n |-> k]
ComposeW(W1, W2) == [k \in 1..Len(W1) |-> IF W1[k] = 0 THEN 0 ELSE W2[W1[k]]]

NodeTypes == {"NiNode", "BSFadeNode", "BSOrderedNode", "BSValueNode", "BSLeafAnimNode", "BSTreeNode",
              "BSMultiBoundNode", "BSBlastNode", "BSDamageStage", "BSMasterParticleSystem", "NiBillboardNode",
              "NiSwitchNode", "NiLODNode", "NiBone", "NiSortAdjustNode", "BSRangeNode", "BSDebrisNode",
              "BSFaceGenNiNode", "NiBSAnimationNode", "NiBSParticleNode", "AvoidNode", "RootCollisionNode"}
IsNode(b) == b.type \in NodeTypes

(* ---------------- header type table ---------------- *)
FindType(ts, t) == IF \E k \in 1..Len(ts) : ts[k] = t THEN CHOOSE k \in 1..Len(ts) : ts[k] = t /\ \A j \in 1..(k - 1) : ts[j] # t ELSE 0
\* AddOrFindBlockTypeId: <<new type table, 0-based id>>
AddOrFindType(ts, t) == LET k == FindType(ts, t) IN IF k > 0 THEN <<ts, k - 1>> ELSE <<Append(ts, t), Len(ts)>>
TypeUseCount(s, ti) == Cardinality({k \in 1..Len(s.tidx) : s.tidx[k] = ti})
DropType(s, ti) == [s EXCEPT !.types = RmAt(s.types, ti + 1),
                             !.tidx = [k \in 1..Len(s.tidx) |-> IF s.tidx[k] > ti THEN s.tidx[k] - 1 ELSE s.tidx[k]]]

(* ---------------- Exact: NiHeader operations ---------------- *)
AddBlock_Exact(s, b) ==
    LET r == AddOrFindType(s.types, b.type)
    IN  [t |-> [s EXCEPT !.blocks = Append(s.blocks, b), !.types = r[1], !.tidx = Append(s.tidx, r[2]),
                         !.sz = IF s.hs THEN Append(s.sz, 0) ELSE s.sz],
         W |-> IdW(N(s))]

ShiftRef(r, i) == IF r = NPOS THEN NPOS ELSE IF r = i THEN NPOS ELSE IF r > i THEN r - 1 ELSE r
ShiftBlock(b, i) == [b EXCEPT !.refs = [j \in 1..Len(b.refs) |-> ShiftRef(b.refs[j], i)],
                              !.ptrs = [j \in 1..Len(b.ptrs) |-> ShiftRef(b.ptrs[j], i)]]
DelW(n, i) == [k \in 1..n |-> IF k = i + 1 THEN 0 ELSE IF k > i + 1 THEN k - 1 ELSE k]

\* NiHeader::DeleteBlock(i), i 0-based and in range (the C++ indexes blockTypeIndices[i] unchecked)
DeleteBlock_State(s, i) ==
    LET ti == s.tidx[i + 1]
        s1 == IF TypeUseCount(s, ti) < 2 THEN DropType(s, ti) ELSE s
        s2 == [s1 EXCEPT !.tidx = RmAt(s1.tidx, i + 1),
                         !.sz = IF s.hs THEN RmAt(s1.sz, i + 1) ELSE s1.sz,
                         !.blocks = RmAt(s1.blocks, i + 1)]
    IN  [s2 EXCEPT !.blocks = [k \in 1..Len(s2.blocks) |-> ShiftBlock(s2.blocks[k], i)]]
DeleteBlock_Exact(s, i) == IF i = NPOS THEN [t |-> s, W |-> IdW(N(s))] ELSE [t |-> DeleteBlock_State(s, i), W |-> DelW(N(s), i)]

ReplaceBlock_Exact(s, i, b) ==
    IF i = NPOS THEN [t |-> s, W |-> IdW(N(s))]
    ELSE LET ti == s.tidx[i + 1]
             s1 == IF TypeUseCount(s, ti) < 2 THEN DropType(s, ti) ELSE s
             r  == AddOrFindType(s1.types, b.type)
         IN  [t |-> [s1 EXCEPT !.types = r[1], !.tidx[i + 1] = r[2],
                               !.sz = IF s.hs THEN [s1.sz EXCEPT ![i + 1] = 0] ELSE s1.sz,
                               !.blocks[i + 1] = b],
              W |-> IdW(N(s))]          \* the replacement takes over the slot (and the identity) of the replaced block

IsPerm(p, n) == Len(p) = n /\ {p[k] : k \in 1..n} = 0..(n - 1)
MapRef(r, p) == IF r # NPOS /\ r >= 0 /\ r < Len(p) THEN p[r + 1] ELSE r
SetBlockOrder_Exact(s, p) ==
    IF Len(p) # N(s) THEN [t |-> s, W |-> IdW(N(s))]
    ELSE LET n   == N(s)
             inv == [k \in 1..n |-> CHOOSE o \in 1..n : p[o] = k - 1]
         IN  [t |-> [s EXCEPT !.blocks = [k \in 1..n |->
                                 LET b == s.blocks[inv[k]] IN
                                 [b EXCEPT !.refs = [j \in 1..Len(b.refs) |-> MapRef(b.refs[j], p)],
                                           !.ptrs = [j \in 1..Len(b.ptrs) |-> MapRef(b.ptrs[j], p)]]],
                             !.tidx = [k \in 1..n |-> s.tidx[inv[k]]],
                             !.sz = IF s.hs THEN [k \in 1..n |-> s.sz[inv[k]]] ELSE s.sz],
              W |-> [k \in 1..n |-> p[k] + 1]]

RefersTo(b, i, withPtrs) == (\E j \in 1..Len(b.refs) : b.refs[j] = i) \/ (withPtrs /\ \E j \in 1..Len(b.ptrs) : b.ptrs[j] = i)
IsReferenced(s, i) == i # NPOS /\ \E k \in 1..N(s) : RefersTo(s.blocks[k], i, TRUE)
RefCount(s, i) == IF i = NPOS THEN 0
                  ELSE FoldLeft(LAMBDA acc, b : acc + Cardinality({j \in 1..Len(b.refs) : b.refs[j] = i})
                                                    + Cardinality({j \in 1..Len(b.ptrs) : b.ptrs[j] = i}), 0, s.blocks)

\* NiHeader::DeleteBlockByType: indices of the type are collected first, then visited from the back
RECURSIVE DelByTypeLoop(_, _, _, _, _)
DelByTypeLoop(s, W, idx, j, orphanedOnly) ==
    IF j = 0 THEN [t |-> s, W |-> W]
    ELSE IF ~orphanedOnly \/ ~IsReferenced(s, idx[j])
         THEN LET d == DeleteBlock_Exact(s, idx[j]) IN DelByTypeLoop(d.t, ComposeW(W, d.W), idx, j - 1, orphanedOnly)
         ELSE DelByTypeLoop(s, W, idx, j - 1, orphanedOnly)
DeleteByType_Exact(s, tname, orphanedOnly) ==
    LET k == FindType(s.types, tname)
    IN  IF k = 0 THEN [t |-> s, W |-> IdW(N(s))]
        ELSE LET idx == SetToSortSeq({i \in 0..(N(s) - 1) : s.tidx[i + 1] = k - 1}, LAMBDA a, b : a < b)
             IN  DelByTypeLoop(s, IdW(N(s)), idx, Len(idx), orphanedOnly)

\* NifFile::GetRootNode: block 0 if it is a node, else the first node; -1 if there is none
RootIndex(s) == IF N(s) > 0 /\ IsNode(s.blocks[1]) THEN 0
                ELSE IF \E k \in 1..N(s) : IsNode(s.blocks[k])
                     THEN (CHOOSE k \in 1..N(s) : IsNode(s.blocks[k]) /\ \A j \in 1..(k - 1) : ~IsNode(s.blocks[j])) - 1
                     ELSE NPOS

\* NiHeader::DeleteUnreferencedBlocks<NiObject>(rootId): delete the first unreferenced non-root block, start over
RECURSIVE PruneLoop(_, _, _)
PruneLoop(s, W, root) ==
    LET C == {i \in 0..(N(s) - 1) : i # root /\ ~IsReferenced(s, i)}
    IN  IF C = {} THEN [t |-> s, W |-> W]
        ELSE LET i == CHOOSE x \in C : \A y \in C : x <= y
                 d == DeleteBlock_Exact(s, i)
             IN  PruneLoop(d.t, ComposeW(W, d.W), IF root > i THEN root - 1 ELSE root)
Prune_Exact(s) == IF RootIndex(s) = NPOS THEN [t |-> s, W |-> IdW(N(s))] ELSE PruneLoop(s, IdW(N(s)), RootIndex(s))

\* NifFile::DeleteUnreferencedNodes: childless non-root nodes referenced at most once, first one first, start over
CanDeleteNode(b) == \A j \in 1..Len(b.refs) : b.refs[j] = NPOS
RECURSIVE PruneNodesLoop(_, _)
PruneNodesLoop(s, W) ==
    LET root == RootIndex(s)
        C == {i \in 0..(N(s) - 1) : i # root /\ IsNode(s.blocks[i + 1]) /\ CanDeleteNode(s.blocks[i + 1]) /\ RefCount(s, i) < 2}
    IN  IF root = NPOS \/ C = {} THEN [t |-> s, W |-> W]
        ELSE LET i == CHOOSE x \in C : \A y \in C : x <= y
                 d == DeleteBlock_Exact(s, i)
             IN  PruneNodesLoop(d.t, ComposeW(W, d.W))
PruneNodes_Exact(s) == PruneNodesLoop(s, IdW(N(s)))

(* ---------------- properties ---------------- *)
\* C06 / C07: the header tables describe the blocks
HeaderMirror(s) ==
    /\ Len(s.tidx) = N(s)
    /\ \A k \in 1..N(s) : s.tidx[k] >= 0 /\ s.tidx[k] < Len(s.types) /\ s.types[s.tidx[k] + 1] = s.blocks[k].type
    /\ \A a, b \in 1..Len(s.types) : a # b => s.types[a] # s.types[b]
    /\ \A a \in 1..Len(s.types) : \E k \in 1..Len(s.tidx) : s.tidx[k] = a - 1      \* no unused type name
    /\ (s.hs => Len(s.sz) = N(s))

\* bag of the new positions of the live referents of a reference list
Bag(q) == [v \in {q[k] : k \in 1..Len(q)} |-> Cardinality({k \in 1..Len(q) : q[k] = v})]
LiveImage(s, W, q) == SelectSeq([j \in 1..Len(q) |-> IF InRange(s, q[j]) THEN W[q[j] + 1] ELSE 0], LAMBDA x : x > 0)
LiveNow(t, q) == SelectSeq([j \in 1..Len(q) |-> IF InRange(t, q[j]) THEN q[j] + 1 ELSE 0], LAMBDA x : x > 0)
HasDangling(s, q) == \E j \in 1..Len(q) : q[j] # NPOS /\ ~InRange(s, q[j])

\* every reference designates the same logical block as before, or is empty exactly when that block was deleted
SlotStable(s, W, q, q2) ==
    IF Len(q) = Len(q2)
    THEN \A j \in 1..Len(q) :
            IF q[j] = NPOS THEN q2[j] = NPOS
            ELSE IF InRange(s, q[j]) THEN (IF W[q[j] + 1] > 0 THEN q2[j] = W[q[j] + 1] - 1 ELSE q2[j] = NPOS)
            ELSE TRUE                                  \* dangling values are not constrained (C15's domain)
    ELSE FALSE
BagStable(s, W, t, q, q2) == HasDangling(s, q) \/ Bag(LiveImage(s, W, q)) = Bag(LiveNow(t, q2))
RefsStable(s, W, t) ==
    \A k \in 1..N(s) : W[k] > 0 =>
        /\ SlotStable(s, W, s.blocks[k].refs, t.blocks[W[k]].refs)
        /\ BagStable(s, W, t, s.blocks[k].ptrs, t.blocks[W[k]].ptrs)
\* weaker form for steps that may legitimately compact or reorder reference arrays (sorting, saving)
RefsStableBags(s, W, t) ==
    \A k \in 1..N(s) : W[k] > 0 =>
        /\ BagStable(s, W, t, s.blocks[k].refs, t.blocks[W[k]].refs)
        /\ BagStable(s, W, t, s.blocks[k].ptrs, t.blocks[W[k]].ptrs)

WInjective(W) == \A a, b \in 1..Len(W) : (a # b /\ W[a] > 0) => W[a] # W[b]
Survivors(W) == {W[k] : k \in {j \in 1..Len(W) : W[j] > 0}}
Vanished(W) == {k \in 1..Len(W) : W[k] = 0}
TypesKept(s, W, t) == \A k \in 1..N(s) : W[k] > 0 => t.blocks[W[k]].type = s.blocks[k].type
\* new blocks of t = positions that are nobody's image
Fresh(W, t) == (1..N(t)) \ Survivors(W)

ReferencedBySurvivor(s, W, k) ==   \* old block k (1-based) is referenced (ref or ptr) by a block that survives
    \E a \in 1..N(s) : W[a] > 0 /\ RefersTo(s.blocks[a], k - 1, TRUE)

\* reachability from the root through owning references
Succ(s, k) == {s.blocks[k].refs[j] + 1 : j \in {x \in 1..Len(s.blocks[k].refs) : InRange(s, s.blocks[k].refs[x])}}
RECURSIVE Reach(_, _)
Reach(s, S) == LET S2 == S \cup UNION {Succ(s, k) : k \in S} IN IF S2 = S THEN S ELSE Reach(s, S2)

(* Every XViol operator returns the set of names of the violated clauses; XAllowed == XViol = {} *)
V(cond, name) == IF cond THEN {} ELSE {name}
WitnessOK(s, W, t) == Len(W) = N(s) /\ WInjective(W) /\ \A k \in 1..Len(W) : W[k] >= 0 /\ W[k] <= N(t)
CommonViol(s, W, t) ==
    IF ~WitnessOK(s, W, t) THEN {"DuplicateOrLostIdentity"}
    ELSE V(TypesKept(s, W, t), "TypesKept") \cup V(HeaderMirror(t), "HeaderMirror")

AddViol(s, W, t) ==
    LET c == CommonViol(s, W, t) IN
    IF c # {} THEN c ELSE V(Vanished(W) = {}, "NothingDeleted") \cup V(Cardinality(Fresh(W, t)) = 1, "OneNewBlock")
                          \cup V(RefsStable(s, W, t), "RefsStable")
DeleteViol(s, i, W, t) ==
    LET c == CommonViol(s, W, t) IN
    IF c # {} THEN c ELSE V(Fresh(W, t) = {}, "NoNewBlock") \cup V(RefsStable(s, W, t), "RefsStable")
                          \cup V(Vanished(W) = (IF InRange(s, i) THEN {i + 1} ELSE {}), "ExactlyTheDeletedBlock")
ReplaceViol(s, i, W, t) ==   \* identity of slot i passes to the replacement, so TypesKept is not required of it
    IF ~WitnessOK(s, W, t) THEN {"DuplicateOrLostIdentity"}
    ELSE V(HeaderMirror(t), "HeaderMirror") \cup V(Vanished(W) = {} /\ Fresh(W, t) = {}, "SameBlockCount")
         \cup V(\A k \in 1..N(s) : (k # i + 1 /\ W[k] > 0) => t.blocks[W[k]].type = s.blocks[k].type, "TypesKept")
         \cup V(\A k \in 1..N(s) : (k # i + 1 /\ W[k] > 0) =>
                   /\ SlotStable(s, W, s.blocks[k].refs, t.blocks[W[k]].refs)
                   /\ BagStable(s, W, t, s.blocks[k].ptrs, t.blocks[W[k]].ptrs), "RefsStable")
OrderViol(s, p, W, t) ==
    LET c == CommonViol(s, W, t) IN
    IF c # {} THEN c ELSE V(Vanished(W) = {} /\ Fresh(W, t) = {}, "Permutation") \cup V(RefsStable(s, W, t), "RefsStable")
                          \cup V(IsPerm(p, N(s)) => \A k \in 1..N(s) : W[k] = p[k] + 1, "RequestedOrder")
DeleteByTypeViol(s, tname, orphanedOnly, W, t) ==
    LET c == CommonViol(s, W, t) IN
    IF c # {} THEN c ELSE V(Fresh(W, t) = {}, "NoNewBlock") \cup V(RefsStable(s, W, t), "RefsStable")
         \cup V(\A k \in Vanished(W) : s.blocks[k].type = tname, "OnlyTheType")
         \cup V(~orphanedOnly => \A k \in 1..N(t) : t.blocks[k].type # tname, "AllOfTheType")
         \cup V(orphanedOnly => \A k \in Vanished(W) : ~ReferencedBySurvivor(s, W, k), "OnlyOrphans")
PruneViol(s, W, t) ==
    LET c == CommonViol(s, W, t) IN
    IF c # {} THEN c ELSE V(Fresh(W, t) = {}, "NoNewBlock") \cup V(RefsStable(s, W, t), "RefsStable")
         \cup V(\A k \in Vanished(W) : ~ReferencedBySurvivor(s, W, k), "OnlyUnreferencedVanish")
         \cup V(RootIndex(s) # NPOS => Reach(s, {RootIndex(s) + 1}) \cap Vanished(W) = {}, "ReachableKept")
         \cup V(RootIndex(s) = NPOS => Vanished(W) = {}, "NoRootNoPrune")
PruneNodesViol(s, W, t) ==
    LET c == CommonViol(s, W, t) IN
    IF c # {} THEN c ELSE V(Fresh(W, t) = {}, "NoNewBlock") \cup V(RefsStable(s, W, t), "RefsStable")
         \* only non-root nodes vanish, and only ones that are childless once the other vanished nodes are gone
         \* (the C++ cascades by design: "deleting a block can cause others to become unreferenced")
         \cup V(\A k \in Vanished(W) : /\ IsNode(s.blocks[k]) /\ k # RootIndex(s) + 1
                                        /\ \A j \in 1..Len(s.blocks[k].refs) :
                                              LET r == s.blocks[k].refs[j] IN r = NPOS \/ (InRange(s, r) /\ W[r + 1] = 0),
                 "OnlyChildlessNodes")

\* Save (without sorting/pruning) followed by Load gives an equivalent graph
ReloadViol(s, t) ==
    IF N(t) # N(s) THEN {"SameBlockCount"}
    ELSE V(HeaderMirror(t), "HeaderMirror") \cup V(\A k \in 1..N(s) : t.blocks[k].type = s.blocks[k].type, "TypesKept")
         \cup V(RefsStableBags(s, IdW(N(s)), t), "RefsStable")


(* ---------------- well-formed graphs (the quantifier of C04; everything else is C15's fault space) ---------------- *)
ShapeTypes == {"NiTriShape", "NiTriStrips", "BSTriShape", "BSDynamicTriShape", "BSSubIndexTriShape", "BSMeshLODTriShape"}
\* role of reference slot j of a block, by its type (layout of GetChildIndices)
RefRole(b, j) ==
    IF IsNode(b) THEN (IF j = 1 THEN "ctrl" ELSE IF j = 2 THEN "coll" ELSE "child")
    ELSE IF b.type \in ShapeTypes THEN (IF j = 1 THEN "ctrl" ELSE IF j = 2 THEN "coll" ELSE IF j = 3 THEN "data" ELSE "other")
    ELSE IF b.type = "bhkCollisionObject" THEN "body"
    ELSE IF b.type = "bhkRigidBody" THEN (IF j = 1 THEN "bhkshape" ELSE "constraint")
    ELSE "other"
RoleAccepts(role, ty) ==
    CASE role = "child"      -> ty \in NodeTypes \cup ShapeTypes
      [] role = "coll"       -> ty = "bhkCollisionObject"
      [] role = "data"       -> ty = "NiTriShapeData"
      [] role = "body"       -> ty = "bhkRigidBody"
      [] role = "constraint" -> ty = "bhkHingeConstraint"
      [] OTHER               -> FALSE
WellTyped(s) ==
    \A k \in 1..N(s) :
        /\ \A j \in 1..Len(s.blocks[k].refs) :
              LET r == s.blocks[k].refs[j] IN
              r = NPOS \/ (InRange(s, r) /\ RoleAccepts(RefRole(s.blocks[k], j), s.blocks[r + 1].type))
        /\ \A j \in 1..Len(s.blocks[k].ptrs) :
              LET r == s.blocks[k].ptrs[j] IN
              r = NPOS \/ (InRange(s, r) /\ (s.blocks[k].type = "bhkHingeConstraint" => s.blocks[r + 1].type = "bhkRigidBody"))
\* no block reaches itself through owning references
Acyclic(s) == \A k \in 1..N(s) : k \notin Reach(s, Succ(s, k))

(* ---------------- C04: sorting and pruning of a default save ---------------- *)
\* k (1-based) is a node that no node lists among its references: a root-level node
Parentless(s, k) == IsNode(s.blocks[k]) /\ ~\E a \in 1..N(s) : a # k /\ IsNode(s.blocks[a]) /\ RefersTo(s.blocks[a], k - 1, FALSE)
\* references of nodes may be re-ordered by the sorter (children first nodes, then shapes, ...): compare as bags;
\* every other block keeps each reference in its slot
\* "each node keeps the same set of children, none listed more often than before"
NodeRefsKept(s, W, t, q, q2) ==
    HasDangling(s, q) \/
    LET A == Bag(LiveImage(s, W, q))
        B == Bag(LiveNow(t, q2))
    IN  DOMAIN A = DOMAIN B /\ \A x \in DOMAIN B : B[x] <= A[x]
RefsStableSort(s, W, t) ==
    \A k \in 1..N(s) : W[k] > 0 =>
        /\ IF IsNode(s.blocks[k]) THEN NodeRefsKept(s, W, t, s.blocks[k].refs, t.blocks[W[k]].refs)
                                  ELSE SlotStable(s, W, s.blocks[k].refs, t.blocks[W[k]].refs)
        /\ BagStable(s, W, t, s.blocks[k].ptrs, t.blocks[W[k]].ptrs)
\* no field value of a surviving block changes (content id of the payload with reference/string-index fields masked);
\* a node whose child list lost a duplicate entry (allowed above) necessarily changes its child count
ContentKept(s, W, t) ==
    \A k \in 1..N(s) : W[k] > 0 =>
        \/ (IsNode(s.blocks[k]) /\ Len(t.blocks[W[k]].refs) < Len(s.blocks[k].refs))
        \/ (t.blocks[W[k]].cid = s.blocks[k].cid /\ t.blocks[W[k]].size = s.blocks[k].size)
\* (string-table indices inside payloads are derived data that a save may renumber: they are not compared)
SameBlock(a, b) == a.type = b.type /\ a.refs = b.refs /\ a.ptrs = b.ptrs /\ a.uid = b.uid /\ a.cid = b.cid /\ a.size = b.size
SameBlocks(s, t) == N(s) = N(t) /\ \A k \in 1..N(s) : SameBlock(s.blocks[k], t.blocks[k])

\* PrettySortBlocks / SetShapeOrder: a pure permutation
SortViol(s, W, t, rootFirst) ==
    LET c == CommonViol(s, W, t) IN
    IF c # {} THEN c
    ELSE V(Vanished(W) = {} /\ Fresh(W, t) = {}, "Permutation") \cup V(RefsStableSort(s, W, t), "RefsStable")
         \cup V(ContentKept(s, W, t), "ContentKept")
         \cup V(rootFirst => ((\E k \in 1..N(s) : Parentless(s, k)) =>
                                 (N(t) > 0 /\ \E k \in 1..N(s) : Parentless(s, k) /\ W[k] = 1)), "RootFirst")
         \cup V(s.unk => SameBlocks(s, t), "UnknownUntouched")
\* sorting an already sorted model changes nothing
IdempotentViol(s, W, t) == V(W = IdW(N(s)) /\ SameBlocks(s, t), "SortIdempotent")
\* Optimize(): pruning only (bounds are recomputed before the pre snapshot, so content ids must not move)
OptimizeViol(s, W, t) ==
    LET c == PruneViol(s, W, t) IN
    IF c # {} THEN c ELSE V(ContentKept(s, W, t), "ContentKept") \cup V(s.unk => SameBlocks(s, t), "UnknownUntouched")
\* default save on the live model = prune, then sort
SaveDefaultViol(s, W, t) ==
    LET c == CommonViol(s, W, t) IN
    IF c # {} THEN c
    ELSE V(Fresh(W, t) = {}, "NoNewBlock") \cup V(RefsStableSort(s, W, t), "RefsStable") \cup V(ContentKept(s, W, t), "ContentKept")
         \cup V(\A k \in Vanished(W) : ~ReferencedBySurvivor(s, W, k), "OnlyUnreferencedVanish")
         \cup V(RootIndex(s) # NPOS => Reach(s, {RootIndex(s) + 1}) \cap Vanished(W) = {}, "ReachableKept")
         \cup V((\E k \in 1..N(s) : Parentless(s, k) /\ W[k] > 0) =>
                    (N(t) > 0 /\ \E k \in 1..N(s) : Parentless(s, k) /\ W[k] = 1), "RootFirst")
         \cup V(s.unk => SameBlocks(s, t), "UnknownUntouched")
\* the header tables of a written file describe the bytes that follow (independent reader; full statement: NifWire!WellFormed)
FileWalks(f) ==
    /\ f.parsed /\ f.walked /\ f.end + 8 = f.len /\ f.footer = <<1, 0>>
    /\ Len(f.tidx) = f.nblocks /\ (f.hs => Len(f.sizes) = f.nblocks)
    /\ \A k \in 1..Len(f.tidx) : f.tidx[k] < Len(f.types)
\* the written file is the post state: same blocks, same content, reference fields = the model's references
FileViol(t, f) ==
    IF f.nblocks # N(t) \/ Len(f.blocks) # N(t) THEN {"FileBlockCount"}
    ELSE V(\A k \in 1..N(t) : f.blocks[k].type = t.blocks[k].type, "FileTypes")
         \cup V(\A k \in 1..N(t) : f.blocks[k].cid = t.blocks[k].cid /\ f.blocks[k].size = t.blocks[k].size, "FileContent")
         \cup V(\A k \in 1..N(t) : f.blocks[k].wrefs = t.blocks[k].wrefs, "FileReferences")
         \cup V(FileWalks(f), "FileWellFormed")

(* ---------------- NifFile-level edits: composite operations on nodes and shapes ---------------- *)
\* These calls are sequences of the header operations above plus reference updates on the blocks they name.  The relation
\* says what may change: the named blocks gain / lose exactly the named references, the named sub-graph vanishes, every
\* other reference keeps designating its block (as bags: these calls may drop emptied entries), the header mirrors the blocks.
AddBag(B, x) == IF x \in DOMAIN B THEN [B EXCEPT ![x] = @ + 1] ELSE B @@ (x :> 1)
BagsStableExcept(s, W, t, X) ==
    \A k \in 1..N(s) : (W[k] > 0 /\ k \notin X) =>
        /\ BagStable(s, W, t, s.blocks[k].refs, t.blocks[W[k]].refs)
        /\ BagStable(s, W, t, s.blocks[k].ptrs, t.blocks[W[k]].ptrs)
RefBagOf(s, W, k) == Bag(LiveImage(s, W, s.blocks[k].refs))          \* where the live references of old block k point now
RefBagNow(t, k2) == Bag(LiveNow(t, t.blocks[k2].refs))
\* first node (1-based) that lists block c (0-based) among its children (NifFile::GetParentNode); 0 if none.
\* children of a node are its references from the third on (the layout of the projection: controller, collision, children...)
ParentOf(s, c) == LET P == {k \in 1..N(s) : IsNode(s.blocks[k]) /\ RefersTo(s.blocks[k], c, FALSE)}
                  IN  IF P = {} THEN 0 ELSE CHOOSE k \in P : \A j \in P : k <= j
ModelOpViol(s, a, W, t) ==
    LET c == CommonViol(s, W, t) IN
    IF c # {} THEN c
    ELSE CASE a.op = "AddNode" ->
                LET P == IF a.parent = NPOS THEN RootIndex(s) + 1 ELSE a.parent + 1
                    F == Fresh(W, t)
                IN  V(Vanished(W) = {} /\ Cardinality(F) = 1 /\ \A f \in F : IsNode(t.blocks[f]), "OneNodeAdded")
                    \cup V(BagsStableExcept(s, W, t, {P}), "OtherReferencesStable")
                    \cup V(P = 0 \/ Cardinality(F) # 1 \/ HasDangling(s, s.blocks[P].refs)
                           \/ RefBagNow(t, W[P]) = AddBag(RefBagOf(s, W, P), CHOOSE f \in F : TRUE), "ParentGainsExactlyTheNode")
           [] a.op = "SetParent" ->
                \* no-op when the block is its own new parent; the block leaves every node that listed it and joins the new one
                LET ch == a.c
                    P  == IF a.p = NPOS THEN RootIndex(s) + 1 ELSE a.p + 1
                    Old == {k \in 1..N(s) : IsNode(s.blocks[k]) /\ RefersTo(s.blocks[k], ch, FALSE)}
                IN  V(Vanished(W) = {} /\ Fresh(W, t) = {}, "NoBlockAddedOrDeleted")
                    \cup V(BagsStableExcept(s, W, t, Old \cup {P}), "OtherReferencesStable")
                    \cup V(P = 0 \/ ch + 1 = P \/ Old = {} \/ RefersTo(t.blocks[W[P]], W[ch + 1] - 1, FALSE), "NewParentListsTheBlock")
           [] a.op \in {"DeleteShape", "DeleteNode", "DeleteShader", "DeleteSkinning"} ->
                LET x == a.i + 1 IN
                V(Fresh(W, t) = {}, "NoNewBlock")
                \cup V(a.op \notin {"DeleteShape", "DeleteNode"} \/ ~InRange(s, a.i) \/ x \in Vanished(W), "TheNamedBlockIsDeleted")
                \cup V(a.op \in {"DeleteShape", "DeleteNode"} \/ W[x] > 0, "TheShapeItselfStays")
                \* only blocks of the named block's own sub-graph vanish
                \cup V(~InRange(s, a.i) \/ Vanished(W) \subseteq Reach(s, {x}), "OnlyItsOwnSubGraphVanishes")
                \cup V(BagsStableExcept(s, W, t, {}), "OtherReferencesStable")
           [] a.op = "AssignExtra" ->
                LET P == a.i + 1
                    F == Fresh(W, t)
                IN  V(Vanished(W) = {} /\ Cardinality(F) = 1, "OneBlockAdded")
                    \cup V(BagsStableExcept(s, W, t, {P}), "OtherReferencesStable")
                    \cup V(Cardinality(F) # 1 \/ HasDangling(s, s.blocks[P].refs)
                           \/ RefBagNow(t, W[P]) = AddBag(RefBagOf(s, W, P), CHOOSE f \in F : TRUE), "TargetGainsExactlyTheBlock")
           [] OTHER -> {"UnknownOp"}
=============================================================================
