---------------------------- MODULE NifGraphMC ----------------------------
(***************************************************************************)
(* Exhaustive exploration of block-graph edit histories (C06).             *)
(* The state machine's actions are the public edit calls; Step = the       *)
(* transcription (X_Exact), ok = the property-level relation (XViol = {})  *)
(* evaluated on every transition.  Every transition [pre, act, post] is    *)
(* exported as one JSON line (ACTION_CONSTRAINT Emit) and replayed on real *)
(* NifFile objects along the same paths.  VIEW st keeps act/ok out of the  *)
(* fingerprint.                                                            *)
(***************************************************************************)
EXTENDS NifGraph, TLC, Json
CONSTANTS MaxBlocks,    \* bound on the number of blocks
          HasSizes,     \* version with (TRUE) / without (FALSE) a size table
          Rich,         \* richer slot patterns (controller / collision slots of nodes)
          Export
VARIABLES st, act, ok

Vals(n) == {NPOS} \cup (0..(n - 1))
Seqs(S, k) == UNION {[1..j -> S] : j \in 0..k}
\* blocks that can be added when the model will then have n blocks (well-formed references, self included)
\* NiNode refs = <<controller, collision>> \o children ; bhkCollisionObject refs = <<body>>, ptrs = <<target>>
NodeBlocks(n) == {[type |-> "NiNode", refs |-> <<NPOS, NPOS>> \o c, ptrs |-> <<>>] : c \in Seqs(Vals(n), 2)}
                 \cup (IF Rich THEN {[type |-> "NiNode", refs |-> <<a, b>>, ptrs |-> <<>>] : a, b \in Vals(n)} ELSE {})
LeafBlocks == {[type |-> "NiStringExtraData", refs |-> <<>>, ptrs |-> <<>>]}
ColBlocks(n) == {[type |-> "bhkCollisionObject", refs |-> <<a>>, ptrs |-> <<b>>] : a, b \in Vals(n)}
NewBlocks(n) == NodeBlocks(n) \cup LeafBlocks \cup ColBlocks(n)
PlainBlocks == {[type |-> "NiNode", refs |-> <<NPOS, NPOS>>, ptrs |-> <<>>],
                [type |-> "NiStringExtraData", refs |-> <<>>, ptrs |-> <<>>],
                [type |-> "bhkCollisionObject", refs |-> <<NPOS>>, ptrs |-> <<NPOS>>]}
TypeNames == {"NiNode", "NiStringExtraData", "bhkCollisionObject"}
Perms(n) == {p \in [1..n -> 0..(n - 1)] : \A a, b \in 1..n : a # b => p[a] # p[b]}

\* NifFile::Create(version): one root node
Created == [hs |-> HasSizes, types |-> <<"NiNode">>, tidx |-> <<0>>, sz |-> IF HasSizes THEN <<0>> ELSE <<>>,
            blocks |-> <<[type |-> "NiNode", refs |-> <<NPOS, NPOS>>, ptrs |-> <<>>]>>]

Init == st = Created /\ act = [op |-> "Create"] /\ ok = TRUE

Do(r, a, viol) == st' = r.t /\ act' = a /\ ok' = (viol = {})

Next ==
    \/ /\ N(st) < MaxBlocks
       /\ \E b \in NewBlocks(N(st) + 1) :
            LET r == AddBlock_Exact(st, b) IN Do(r, [op |-> "Add", b |-> b], AddViol(st, r.W, r.t))
    \/ \E i \in 0..(N(st) - 1) :
            LET r == DeleteBlock_Exact(st, i) IN Do(r, [op |-> "Del", i |-> i], DeleteViol(st, i, r.W, r.t))
    \/ \E i \in 0..(N(st) - 1), b \in PlainBlocks :
            LET r == ReplaceBlock_Exact(st, i, b) IN Do(r, [op |-> "Rep", i |-> i, b |-> b], ReplaceViol(st, i, r.W, r.t))
    \/ /\ N(st) > 1
       /\ \E p \in Perms(N(st)) :
            LET r == SetBlockOrder_Exact(st, p) IN Do(r, [op |-> "Ord", p |-> p], OrderViol(st, p, r.W, r.t))
    \/ \E tn \in TypeNames, o \in BOOLEAN :
            LET r == DeleteByType_Exact(st, tn, o) IN
            Do(r, [op |-> "DelT", t |-> tn, orphaned |-> o], DeleteByTypeViol(st, tn, o, r.W, r.t))
    \/ LET r == Prune_Exact(st) IN Do(r, [op |-> "Prune"], PruneViol(st, r.W, r.t))
    \/ LET r == PruneNodes_Exact(st) IN Do(r, [op |-> "PruneNodes"], PruneNodesViol(st, r.W, r.t))

vars == <<st, act, ok>>
Spec == Init /\ [][Next]_vars
View == st

Refines == ok                         \* the transcription never leaves the property-level relation
MirrorInv == HeaderMirror(st)         \* C06: header describes the blocks in every reachable state
Emit == Export => PrintT(ToJson([pre |-> st, a |-> act', post |-> st', ok |-> ok']))
=============================================================================
