---------------------------- MODULE NifGraphMC ----------------------------
(***************************************************************************)
(* Exhaustive exploration of block-graph edit histories (C06).             *)
(* The state machine's actions are the public edit calls; Step = the       *)
(* transcription (X_Exact), ok = the property-level relation (XViol = {})  *)
(* evaluated on every transition.  Every transition [pre, act, post] is    *)
(* exported as one JSON line (ACTION_CONSTRAINT Emit) and replayed on real *)
(* NifFile objects along the same paths.  VIEW st keeps act/ok out of the  *)
(* fingerprint.                                                            *)
(***************************************************************************)
EXTENDS NifGraph, TLC, Json
CONSTANTS MaxBlocks,    \* bound on the number of blocks
          HasSizes,     \* version with (TRUE) / without (FALSE) a size table
          Rich,         \* richer slot patterns (controller / collision slots of nodes)
          Alphabet,     \* "edit" (C06) or "sort" (C04, C15: nodes, shapes, collision bodies, constraints)
          Corrupt,      \* "sort" alphabet: also enumerate out-of-range reference values (C15)
          OnlyAdd,      \* explore Add only (graph enumeration for C04 / C15)
          ExportStates, \* print every distinct state (graph) instead of every transition
          Export
VARIABLES st, act, ok

Vals(n) == {NPOS} \cup (0..(n - 1))
\* reference values for the "sort" alphabet: well-formed ones, plus out-of-range ones when Corrupt (C15)
\* (forward references are allowed: blocks are only appended, so a parent listed before its children needs them)
RefVals(n) == {NPOS} \cup (0..(MaxBlocks - 1)) \cup (IF Corrupt THEN {MaxBlocks, MaxBlocks + 1} ELSE {})
ColBlocks2(n) == {[type |-> "bhkCollisionObject", refs |-> <<a>>, ptrs |-> <<NPOS>>] : a \in RefVals(n)}
Seqs(S, k) == UNION {[1..j -> S] : j \in 0..k}
\* blocks that can be added when the model will then have n blocks (well-formed references, self included)
\* NiNode refs = <<controller, collision>> \o children ; bhkCollisionObject refs = <<body>>, ptrs = <<target>>
NodeBlocks(n) == {[type |-> "NiNode", refs |-> <<NPOS, NPOS>> \o c, ptrs |-> <<>>] : c \in Seqs(Vals(n), 2)}
                 \cup (IF Rich THEN {[type |-> "NiNode", refs |-> <<a, b>>, ptrs |-> <<>>] : a, b \in Vals(n)} ELSE {})
LeafBlocks == {[type |-> "NiStringExtraData", refs |-> <<>>, ptrs |-> <<>>]}
ColBlocks(n) == {[type |-> "bhkCollisionObject", refs |-> <<a>>, ptrs |-> <<b>>] : a, b \in Vals(n)}
\* alphabet "sort" (C04 / C15): the kinds the sorter distinguishes.  NiTriShape refs = <<controller, collision, data, skin,
\* shader, alpha>>; bhkRigidBody refs = <<shape>> \o constraints; bhkHingeConstraint ptrs = entities
ShapeBlocks(n) == {[type |-> "NiTriShape", name |-> nm, refs |-> <<NPOS, c, d, NPOS, NPOS, NPOS>>, ptrs |-> <<>>] :
                        nm \in {"A", "B"}, c \in (IF Rich THEN RefVals(n) ELSE {NPOS}), d \in RefVals(n)}
SortNodeBlocks(n) == {[type |-> "NiNode", name |-> "N", refs |-> <<NPOS, NPOS>> \o ch, ptrs |-> <<>>] : ch \in Seqs(RefVals(n), 2)}
                     \cup {[type |-> "NiNode", name |-> "N", refs |-> <<NPOS, c>>, ptrs |-> <<>>] : c \in RefVals(n)}
                     \cup {[type |-> "BSOrderedNode", name |-> "O", refs |-> <<NPOS, NPOS>> \o ch, ptrs |-> <<>>] : ch \in [1..2 -> RefVals(n)]}
                     \cup (IF Rich THEN {[type |-> "NiNode", name |-> "N", refs |-> <<NPOS, c>> \o ch, ptrs |-> <<>>] :
                                            c \in RefVals(n) \ {NPOS}, ch \in Seqs(RefVals(n), 2) \ {<<>>}} ELSE {})
BodyBlocks(n) == {[type |-> "bhkRigidBody", refs |-> <<NPOS>> \o cs, ptrs |-> <<>>] : cs \in Seqs(RefVals(n), 1)}
ConstraintBlocks(n) == {[type |-> "bhkHingeConstraint", refs |-> <<>>, ptrs |-> e] : e \in Seqs(RefVals(n), IF Rich THEN 2 ELSE 1)}
SortBlocks(n) == SortNodeBlocks(n) \cup ShapeBlocks(n) \cup ColBlocks2(n) \cup BodyBlocks(n) \cup ConstraintBlocks(n)
                 \cup {[type |-> "NiTriShapeData", refs |-> <<NPOS>>, ptrs |-> <<>>]}
NewBlocks(n) == IF Alphabet = "sort" THEN SortBlocks(n) ELSE NodeBlocks(n) \cup LeafBlocks \cup ColBlocks(n)
PlainBlocks == {[type |-> "NiNode", refs |-> <<NPOS, NPOS>>, ptrs |-> <<>>],
                [type |-> "NiStringExtraData", refs |-> <<>>, ptrs |-> <<>>],
                [type |-> "bhkCollisionObject", refs |-> <<NPOS>>, ptrs |-> <<NPOS>>]}
TypeNames == {"NiNode", "NiStringExtraData", "bhkCollisionObject"}
Perms(n) == {p \in [1..n -> 0..(n - 1)] : \A a, b \in 1..n : a # b => p[a] # p[b]}

\* NifFile::Create(version): one root node
Created == [hs |-> HasSizes, types |-> <<"NiNode">>, tidx |-> <<0>>, sz |-> IF HasSizes THEN <<0>> ELSE <<>>,
            blocks |-> <<[type |-> "NiNode", refs |-> <<NPOS, NPOS>>, ptrs |-> <<>>]>>]

Empty == [hs |-> HasSizes, types |-> <<>>, tidx |-> <<>>, sz |-> <<>>, blocks |-> <<>>]
Init == st = (IF OnlyAdd THEN Empty ELSE Created) /\ act = [op |-> "Create"] /\ ok = TRUE

Do(r, a, viol) == st' = r.t /\ act' = a /\ ok' = (viol = {})

OtherOps ==
    \/ \E i \in 0..(N(st) - 1) :
            LET r == DeleteBlock_Exact(st, i) IN Do(r, [op |-> "Del", i |-> i], DeleteViol(st, i, r.W, r.t))
    \/ \E i \in 0..(N(st) - 1), b \in PlainBlocks :
            LET r == ReplaceBlock_Exact(st, i, b) IN Do(r, [op |-> "Rep", i |-> i, b |-> b], ReplaceViol(st, i, r.W, r.t))
    \/ /\ N(st) > 1
       /\ \E p \in Perms(N(st)) :
            LET r == SetBlockOrder_Exact(st, p) IN Do(r, [op |-> "Ord", p |-> p], OrderViol(st, p, r.W, r.t))
    \/ \E tn \in TypeNames, o \in BOOLEAN :
            LET r == DeleteByType_Exact(st, tn, o) IN
            Do(r, [op |-> "DelT", t |-> tn, orphaned |-> o], DeleteByTypeViol(st, tn, o, r.W, r.t))
    \/ LET r == Prune_Exact(st) IN Do(r, [op |-> "Prune"], PruneViol(st, r.W, r.t))
    \/ LET r == PruneNodes_Exact(st) IN Do(r, [op |-> "PruneNodes"], PruneNodesViol(st, r.W, r.t))

Next ==
    \/ /\ N(st) < MaxBlocks
       /\ \E b \in NewBlocks(N(st) + 1) :
            LET r == AddBlock_Exact(st, b) IN Do(r, [op |-> "Add", b |-> b], AddViol(st, r.W, r.t))
    \/ ~OnlyAdd /\ OtherOps

vars == <<st, act, ok>>
Spec == Init /\ [][Next]_vars
View == st

Refines == ok                         \* the transcription never leaves the property-level relation
MirrorInv == HeaderMirror(st)         \* C06: header describes the blocks in every reachable state
\* graphs are exported with two flags: wf (well-typed and acyclic: the quantifier of C04) - all others only serve C15
EmitState == ExportStates => PrintT(ToJson([g |-> st, wf |-> WellTyped(st) /\ Acyclic(st)]))
Emit == Export => PrintT(ToJson([pre |-> st, a |-> act', post |-> st', ok |-> ok']))
=============================================================================
