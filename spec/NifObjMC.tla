------------------------------ MODULE NifObjMC ------------------------------
(* Every history of up to L calls on the object X (and its donor Y) that ends in a save; exported with the content the
   machine says X holds after each call. *)
EXTENDS NifObj, TLC, Json
CONSTANTS L, Export
VARIABLE c
Hists == UNION {[1..n -> Calls] : n \in 1..L}
\* worth running: ends in a save of an object that holds something, and does not save twice in a row
Worth(h) == /\ h[Len(h)].k = "save"
            \* (an object that holds nothing is never saved: outside every listed property; see DESIGN 7.3)
            /\ \A j \in 1..Len(h) : h[j].k = "save" => Run(Start, h)[j].x.base # "none"
            /\ \A j \in 1..(Len(h) - 1) : ~(h[j].k = "save" /\ h[j + 1].k = "save")
            /\ h[1].k \notin {"add", "clear", "save"}
Init == \E h \in Hists : Worth(h) /\ c = h
Next == UNCHANGED c
Spec == Init /\ [][Next]_c
Emit == Export => PrintT(ToJson([ops |-> c, xs |-> [j \in 1..Len(c) |-> Run(Start, c)[j].x]]))
=============================================================================
