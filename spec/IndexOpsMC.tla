--------------------------- MODULE IndexOpsMC ---------------------------
(***************************************************************************)
(* Exhaustive small-domain enumeration of the index utilities (C18).       *)
(* Every state is one call (function + arguments); TLC evaluates the naive *)
(* definition and the algebraic laws on each, and (when Export) prints the *)
(* call with its expected result as one JSON line, which the harness       *)
(* replays on the real C++ templates (one implementation test per state).  *)
(***************************************************************************)
EXTENDS IndexOps, TLC, Json
CONSTANTS Family,   \* which utility
          N,        \* size bound of the family
          K,        \* secondary bound (list lengths)
          Export    \* print cases
VARIABLES c, ok

SeqsUpTo(S, k) == UNION {[1..j -> S] : j \in 0..k}
TriSet(nv) == {<<a, b, d>> : a, b, d \in 0..nv}      \* corner value nv is out of range for a map of size nv
SmallMaps == UNION {{CollapseMap(I, n) : I \in SubsetSeqs(0..(n - 1))} : n \in 0..N}
               \cup SeqsUpTo({-2, -1, 0, 1}, 2)        \* arbitrary (non-collapse) maps too: any negative entry means "removed"

Cases ==
    CASE Family = "erase" ->
            UNION {{[fn |-> "erase", n |-> n, I |-> I] : I \in SubsetSeqs(0..(n + 1))} : n \in 0..N}
      [] Family = "insert" ->
            UNION {{[fn |-> "insert", n |-> n, I |-> I] : I \in SubsetSeqs(0..(n + 2))} : n \in 0..N}
      [] Family = "collapse" ->
            UNION {{[fn |-> "collapse", n |-> n, I |-> I] : I \in SubsetSeqs(0..(n + 1))} : n \in 0..N}
      [] Family = "expand" ->
            UNION {{[fn |-> "expand", n |-> n, I |-> I] : I \in SubsetSeqs(0..(n + 2))} : n \in 0..N}
      [] Family = "maptris" ->
            {[fn |-> "maptris", T |-> T, m |-> m] : T \in SeqsUpTo(TriSet(N), K), m \in SmallMaps}
      [] Family = "mapkeys" ->
            {x \in {[fn |-> "mapkeys", keys |-> SortedSeq(S), m |-> m, off |-> off] :
                        S \in SUBSET (0..(N + 1)), m \in SmallMaps, off \in {-1, 0, 2}} :
                \A k \in ToSet(x.keys) : KeyAlive(k, x.m) => NewKey(k, x.m, x.off) >= 0}
      [] Family = "strips" ->
            {[fn |-> "strips", strips |-> s] : s \in SeqsUpTo(SeqsUpTo(0..(N - 1), K), 2)}
      [] Family = "strip1" ->
            {[fn |-> "strips", strips |-> <<s>>] : s \in SeqsUpTo(0..(N - 1), K)}

KeyedMap(keys) == {<<keys[k], 100 + keys[k]>> : k \in 1..Len(keys)}    \* value = label of the original key

Expected(x) ==
    CASE x.fn = "erase"    -> [out |-> Erase(Iota(x.n), x.I)]
      [] x.fn = "insert"   -> [valid |-> InsertValid(Iota(x.n), x.I),
                               out |-> IF InsertValid(Iota(x.n), x.I) THEN InsertWith(Iota(x.n), x.I, -7) ELSE Iota(x.n)]
      [] x.fn = "collapse" -> [out |-> CollapseMap(x.I, x.n)]
      [] x.fn = "expand"   -> [out |-> ExpandMap(x.I, x.n)]
      [] x.fn = "maptris"  -> [out |-> MapTris(x.T, x.m), deleted |-> DeletedTris(x.T, x.m)]
      [] x.fn = "mapkeys"  -> [collide |-> KeysCollide(KeyedMap(x.keys), x.m, x.off),
                               out |-> SetToSortSeq(MapKeys(KeyedMap(x.keys), x.m, x.off),
                                                    LAMBDA p, q : p[1] < q[1] \/ (p[1] = q[1] /\ p[2] < q[2]))]
      [] x.fn = "strips"   -> [out |-> StripTris(x.strips)]

Laws(x) ==
    CASE x.fn = "erase"    -> LawEraseLen(Iota(x.n), x.I)
      [] x.fn = "insert"   -> LawInsertErase(Iota(x.n), x.I)
      [] x.fn = "collapse" -> LawCollapse(x.I, x.n)
      [] x.fn = "expand"   -> LawExpandCollapse(x.I, x.n)
      [] x.fn = "maptris"  -> Len(MapTris(x.T, x.m)) + Len(DeletedTris(x.T, x.m)) = Len(x.T)
      [] x.fn = "mapkeys"  -> Cardinality(MapKeys(KeyedMap(x.keys), x.m, x.off)) <= Len(x.keys)
      [] x.fn = "strips"   -> LawStrips(x.strips)

Init == c \in Cases /\ ok = Laws(c)
Next == UNCHANGED <<c, ok>>
Spec == Init /\ [][Next]_<<c, ok>>

LawsHold == ok
Emit == Export => PrintT(ToJson([c |-> c, exp |-> Expected(c)]))
=============================================================================
