------------------------------ MODULE NifCopy ------------------------------
(***************************************************************************)
(* Two models: a source A and its copy B (C11).  The content of a model is *)
(* abstracted to an identity number; the machine only says how identities  *)
(* may move: a copy takes the source's, an edit gives the edited side a    *)
(* fresh one, saving and destroying change nothing on the other side.  TLC *)
(* explores every interleaving of edits, saves and destructions of both    *)
(* sides after a copy (constructor or assignment) up to Depth steps; each  *)
(* behaviour is exported and executed on real NifFile objects under        *)
(* AddressSanitizer; NifCopyTrace judges the recorded projections:         *)
(*   CopyEqual  right after the copy both sides project and save equally   *)
(*   Frame      a step on one side leaves the other side's projection      *)
(*   NoForeign  every shape's cached geometry pointer designates the data  *)
(*              block of its own model                                     *)
(***************************************************************************)
EXTENDS Integers, Sequences, FiniteSets, TLC, Json
CONSTANTS Depth, Export
VARIABLES a, b, alive, fresh, hist
Sides == {"A", "B"}
Edits == {"RenameNode", "MoveVerts", "SetTriangles", "DeleteShape", "AddNode", "DeleteBlock", "SetTexture"}
Other(x) == IF x = "A" THEN "B" ELSE "A"
Init == a = 1 /\ b = 0 /\ alive = {"A"} /\ fresh = 2 /\ hist = <<>>
Rec(act) == hist' = Append(hist, act)
Copy(kind) == /\ hist = <<>> /\ b' = a /\ alive' = {"A", "B"} /\ UNCHANGED <<a, fresh>> /\ Rec([op |-> "Copy", kind |-> kind])
Edit(x, e) == /\ x \in alive /\ Len(hist) >= 1
              /\ IF x = "A" THEN a' = fresh /\ UNCHANGED b ELSE b' = fresh /\ UNCHANGED a
              /\ fresh' = fresh + 1 /\ UNCHANGED alive /\ Rec([op |-> "Edit", side |-> x, edit |-> e])
Save(x, opt) == /\ x \in alive /\ Len(hist) >= 1 /\ UNCHANGED <<a, b, alive, fresh>> /\ Rec([op |-> "Save", side |-> x, opt |-> opt])
Destroy(x) == /\ x \in alive /\ Len(hist) >= 1 /\ alive' = alive \ {x} /\ UNCHANGED <<a, b, fresh>> /\ Rec([op |-> "Destroy", side |-> x])
Next == /\ Len(hist) < Depth + 1
        /\ \/ \E k \in {"construct", "assign"} : Copy(k)
           \/ \E x \in Sides, e \in Edits : Edit(x, e)
           \/ \E x \in Sides, o \in {"raw", "default"} : Save(x, o)
           \/ \E x \in Sides : Destroy(x)
Spec == Init /\ [][Next]_<<a, b, alive, fresh, hist>>
\* design-level statements of the machine
CopyEqual == (Len(hist) = 1) => a = b
Emit == (Export /\ (Len(hist) = Depth + 1 \/ alive = {})) => PrintT(ToJson(hist))
=============================================================================
