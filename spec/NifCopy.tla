------------------------------ MODULE NifCopy ------------------------------
(***************************************************************************)
(* Two models: a source A and its copy B (C11).  The content of a model is *)
(* abstracted to an identity number; the machine only says how identities  *)
(* may move: a copy takes the source's, an edit gives the edited side a    *)
(* fresh one, saving and destroying change nothing on the other side.  TLC *)
(* explores every interleaving of edits, saves and destructions of both    *)
(* sides after a copy (constructor or assignment) up to Depth steps, and   *)
(* of up to Pre edits/saves of the source before the copy; each           *)
(* behaviour is exported and executed on real NifFile objects under        *)
(* AddressSanitizer; NifCopyTrace judges the recorded projections:         *)
(*   CopyEqual  right after the copy both sides project and save equally   *)
(*   Frame      a step on one side leaves the other side's projection      *)
(*   NoForeign  every shape's cached geometry pointer designates the data  *)
(*              block of its own model                                     *)
(***************************************************************************)
EXTENDS Integers, Sequences, FiniteSets, TLC, Json
CONSTANTS Depth, Pre, Export
VARIABLES a, b, alive, fresh, hist
Sides == {"A", "B"}
Edits == {"RenameNode", "MoveVerts", "SetTriangles", "DeleteShape", "AddNode", "DeleteBlock", "SetTexture", "SelectLod"}
Other(x) == IF x = "A" THEN "B" ELSE "A"
Init == a = 1 /\ b = 0 /\ alive = {"A"} /\ fresh = 2 /\ hist = <<>>
Rec(act) == hist' = Append(hist, act)
\* the source may have been edited or saved (at most Pre steps) before it is copied: what is copied is any live model, not
\* only a freshly loaded one
CopyAt == IF \E k \in 1..Len(hist) : hist[k].op = "Copy" THEN CHOOSE k \in 1..Len(hist) : hist[k].op = "Copy" ELSE 0
Copied == CopyAt > 0
After == IF Copied THEN Len(hist) - CopyAt ELSE 0
\* (a behaviour with pre-copy steps gets one step less afterwards: the space stays small enough to execute every behaviour)
Room == IF Copied THEN After < (IF CopyAt > 1 THEN Depth - 1 ELSE Depth) ELSE Len(hist) < Pre
Copy(kind) == /\ ~Copied /\ b' = a /\ alive' = {"A", "B"} /\ UNCHANGED <<a, fresh>> /\ Rec([op |-> "Copy", kind |-> kind])
Edit(x, e) == /\ x \in alive /\ Room
              /\ IF x = "A" THEN a' = fresh /\ UNCHANGED b ELSE b' = fresh /\ UNCHANGED a
              /\ fresh' = fresh + 1 /\ UNCHANGED alive /\ Rec([op |-> "Edit", side |-> x, edit |-> e])
Save(x, opt) == /\ x \in alive /\ Room /\ UNCHANGED <<a, b, alive, fresh>> /\ Rec([op |-> "Save", side |-> x, opt |-> opt])
Destroy(x) == /\ x \in alive /\ Copied /\ Room /\ alive' = alive \ {x} /\ UNCHANGED <<a, b, fresh>> /\ Rec([op |-> "Destroy", side |-> x])
Next == \/ \E k \in {"construct", "assign"} : Copy(k)
        \/ \E x \in Sides, e \in Edits : Edit(x, e)
        \/ \E x \in Sides, o \in {"raw", "default"} : Save(x, o)
        \/ \E x \in Sides : Destroy(x)
Spec == Init /\ [][Next]_<<a, b, alive, fresh, hist>>
\* design-level statements of the machine
CopyEqual == (Copied /\ After = 0) => a = b
Emit == (Export /\ Copied /\ (~Room \/ alive = {})) => PrintT(ToJson(hist))
=============================================================================
