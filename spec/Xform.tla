------------------------------- MODULE Xform -------------------------------
(***************************************************************************)
(* Exact rational model of nifly's transform algebra (include/Object3d.hpp, *)
(* src/Object3d.cpp): MatTransform = translation + rotation * (scale * v),  *)
(* composition, inversion, 3x3 matrix inversion.  Numbers are normalised    *)
(* fractions <<n, d>>, d > 0; the lattice used by XformMC keeps every       *)
(* intermediate inside TLC's 32-bit integers.  Floats never appear here:    *)
(* the harness projects results to integers scaled by K and the trace spec  *)
(* compares them with these exact values within an integer slack.           *)
(***************************************************************************)
EXTENDS Integers, Sequences, FiniteSets

Abs(x) == IF x < 0 THEN -x ELSE x
RECURSIVE GCD(_, _)
GCD(a, b) == IF b = 0 THEN a ELSE GCD(b, a % b)
Q(n, d) == LET g == GCD(Abs(n), Abs(d))
               s == IF d < 0 THEN -1 ELSE 1
           IN  IF n = 0 THEN <<0, 1>> ELSE <<s * (n \div g), s * (d \div g)>>
QI(n) == <<n, 1>>
QAdd(a, b) == Q(a[1] * b[2] + b[1] * a[2], a[2] * b[2])
QNeg(a) == <<-a[1], a[2]>>
QSub(a, b) == QAdd(a, QNeg(b))
QMul(a, b) == Q(a[1] * b[1], a[2] * b[2])
QInv(a) == Q(a[2], a[1])
QLe(a, b) == a[1] * b[2] <= b[1] * a[2]

\* vectors <<x, y, z>> and matrices <<row1, row2, row3>> of fractions
VAdd(u, v) == <<QAdd(u[1], v[1]), QAdd(u[2], v[2]), QAdd(u[3], v[3])>>
VNeg(u) == <<QNeg(u[1]), QNeg(u[2]), QNeg(u[3])>>
VScale(q, u) == <<QMul(q, u[1]), QMul(q, u[2]), QMul(q, u[3])>>
Dot(u, v) == QAdd(QAdd(QMul(u[1], v[1]), QMul(u[2], v[2])), QMul(u[3], v[3]))
Col(m, j) == <<m[1][j], m[2][j], m[3][j]>>
MatVec(m, v) == <<Dot(m[1], v), Dot(m[2], v), Dot(m[3], v)>>
MatMul(a, b) == [i \in 1..3 |-> [j \in 1..3 |-> Dot(a[i], Col(b, j))]]
Transpose(m) == [i \in 1..3 |-> Col(m, i)]
IdM == <<<<QI(1), QI(0), QI(0)>>, <<QI(0), QI(1), QI(0)>>, <<QI(0), QI(0), QI(1)>>>>
Minor(m, a, b, c, d) == QSub(QMul(m[a][b], m[c][d]), QMul(m[a][d], m[c][b]))
Det(m) == QAdd(QAdd(QMul(m[1][1], Minor(m, 2, 2, 3, 3)), QMul(m[1][2], Minor(m, 2, 3, 3, 1))), QMul(m[1][3], Minor(m, 2, 1, 3, 2)))
\* inverse by the adjugate (the formula of Matrix3::Invert)
MatInv(m) ==
    LET id == QInv(Det(m))
        C(a, b, c, d) == QMul(Minor(m, a, b, c, d), id)
    IN  <<<<C(2, 2, 3, 3), C(3, 2, 1, 3), C(1, 2, 2, 3)>>,
          <<C(2, 3, 3, 1), C(3, 3, 1, 1), C(1, 3, 2, 1)>>,
          <<C(2, 1, 3, 2), C(3, 1, 1, 2), C(1, 1, 2, 2)>>>>
Trace3(m) == QAdd(QAdd(m[1][1], m[2][2]), m[3][3])

\* transforms [t : vector, R : matrix, s : fraction]
IdT == [t |-> <<QI(0), QI(0), QI(0)>>, R |-> IdM, s |-> QI(1)]
Apply(T, v) == VAdd(T.t, MatVec(T.R, VScale(T.s, v)))
Compose(A, B) == [R |-> MatMul(A.R, B.R), s |-> QMul(A.s, B.s), t |-> VAdd(A.t, MatVec(A.R, VScale(A.s, B.t)))]
Inverse(T) == LET ri == MatInv(T.R)
                  si == QInv(T.s)
              IN  [R |-> ri, s |-> si, t |-> VNeg(VScale(si, MatVec(ri, T.t)))]
IsRotation(m) == MatMul(m, Transpose(m)) = IdM /\ Det(m) = QI(1)

(* ---- comparison of an implementation value (integer scaled by K) with an exact fraction ---- *)
Near(x, q, K, slack) == Abs(x * q[2] - q[1] * K) <= slack * q[2]
NearVec(xs, v, K, slack) == \A i \in 1..3 : Near(xs[i], v[i], K, slack)
NearMat(xm, m, K, slack) == \A i \in 1..3 : \A j \in 1..3 : Near(xm[i][j], m[i][j], K, slack)
=============================================================================
