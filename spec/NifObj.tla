------------------------------- MODULE NifObj -------------------------------
(***************************************************************************)
(* A NifFile object as a container (C07, C06, C11): whatever an object     *)
(* held before, what it holds now is determined by the last load / create  *)
(* / copy and the edits since.  X is the object under test, Y a donor      *)
(* object.  The content of an object is abstracted to                      *)
(*    [base, n]   base: the file loaded ("A", "B", "U" = A with one block  *)
(*                type unknown to the library), a model created for a      *)
(*                version ("newSSE", "newOB"), or "none" (cleared);        *)
(*                n: nodes added since                                     *)
(* TLC enumerates every history of up to L calls; the harness runs it and, *)
(* at every save, builds a fresh object with the same content by the       *)
(* canonical construction (load or create, then n nodes) and logs whether  *)
(* the two write the same bytes, plus the written file as an independent   *)
(* reader sees it (judged by NifWire!WellFormedViol).                      *)
(***************************************************************************)
EXTENDS Integers, Sequences, FiniteSets
None == [base |-> "none", n |-> 0]
Files == {"A", "B", "U"}
Calls == {[k |-> "load", f |-> f] : f \in Files}
         \cup {[k |-> "create", v |-> v] : v \in {"SSE", "OB"}}
         \cup {[k |-> "add"], [k |-> "assign"], [k |-> "copyfrom"], [k |-> "clear"], [k |-> "save"]}
         \cup {[k |-> "donor", f |-> f] : f \in Files}
\* state: contents of X and of Y
Step(s, op) ==
    CASE op.k = "load" -> [s EXCEPT !.x = [base |-> op.f, n |-> 0]]
      [] op.k = "create" -> [s EXCEPT !.x = [base |-> "new" \o op.v, n |-> 0]]
      [] op.k = "add" -> IF s.x.base = "none" THEN s ELSE [s EXCEPT !.x.n = s.x.n + 1]
      [] op.k \in {"assign", "copyfrom"} -> [s EXCEPT !.x = s.y]
      [] op.k = "clear" -> [s EXCEPT !.x = None]
      [] op.k = "donor" -> [s EXCEPT !.y = [base |-> op.f, n |-> 0]]
      [] OTHER -> s
RECURSIVE Run(_, _)
Run(s, ops) == IF ops = <<>> THEN <<>> ELSE LET t == Step(s, Head(ops)) IN <<t>> \o Run(t, Tail(ops))
Start == [x |-> None, y |-> [base |-> "B", n |-> 0]]
=============================================================================
