---------------------------- MODULE NifUnknownMC ----------------------------
(***************************************************************************)
(* C03: which block types are relabelled as unknown.  The type tables of   *)
(* the loadable files that carry block sizes are read from the environment *)
(* (one record [file, types] per line); every state is one pair            *)
(* (file, U) with U a non-empty subset of that file's type names: all      *)
(* subsets when the file has at most MaxAll types, otherwise all           *)
(* singletons, all complements of singletons and the full set.             *)
(***************************************************************************)
EXTENDS Integers, Sequences, FiniteSets, TLC, Json, IOUtils
CONSTANT MaxAll
VARIABLE c
Files == ndJsonDeserialize(IOEnv.TYPETABLES)
TypeSet(r) == {r.types[k] : k \in 1..Len(r.types)}
Subsets(r) == IF Len(r.types) <= MaxAll THEN (SUBSET TypeSet(r)) \ {{}}
              ELSE {{t} : t \in TypeSet(r)} \cup {TypeSet(r) \ {t} : t \in TypeSet(r)} \cup {TypeSet(r)}
Cases == UNION {{[file |-> Files[i].file, U |-> U] : U \in Subsets(Files[i])} : i \in 1..Len(Files)}
Init == c \in Cases
Next == UNCHANGED c
Spec == Init /\ [][Next]_c
Emit == PrintT(ToJson(c))
=============================================================================
