------------------------------ MODULE NifFault ------------------------------
(***************************************************************************)
(* The fault space of C15: Corrupt(reference field, value).                *)
(* The reference table of a loadable file (one record per serialised       *)
(* reference: block, ordinal, byte offset, current value, block count,     *)
(* ancestors) is read from the environment; every state is one fault       *)
(* [k, v]: reference field k is overwritten with v.  The corruption kinds  *)
(* are those the property lists: empty, count, beyond count, the block     *)
(* itself, each ancestor, and in-range indices (all of them for small      *)
(* files, a spread otherwise - which also covers "block of the wrong       *)
(* type").  TLC prints each fault as the byte patch the harness applies.   *)
(* The post-fault contract is FaultViol: the file still loads, saving      *)
(* returns and its output loads again (crash/hang observation is the       *)
(* harness's, under sanitizers with a watchdog).                           *)
(***************************************************************************)
EXTENDS Integers, Sequences, FiniteSets, TLC, Json, IOUtils
CONSTANT MaxAll       \* enumerate every in-range value when the file has at most this many blocks
VARIABLE f
Refs == ndJsonDeserialize(IOEnv.REFTABLE)
SeqToSet(s) == {s[i] : i \in 1..Len(s)}
Spread(r) == {0, r.n - 1, (r.val + 1) % r.n, (r.val + r.n - 1) % r.n, (r.val * 7 + 3) % r.n, r.n \div 2}
InRangeVals(r) == IF r.n = 0 THEN {} ELSE IF r.n <= MaxAll THEN 0..(r.n - 1) ELSE Spread(r)
\* far beyond the count: 0x7FFFFFFF, and 0xFFFFFFFE (written as -2: TLC integers are 32-bit, the harness stores the low 32 bits)
CorruptVals(r) == ({-1, r.n, r.n + 1, r.block, 2147483647, -2} \cup SeqToSet(r.anc) \cup InRangeVals(r)) \ {r.val}
Kind(r, v) == IF v = -1 THEN "empty" ELSE IF v = r.n THEN "count" ELSE IF v = 2147483647 \/ v = -2 THEN "far" ELSE IF v > r.n THEN "beyond"
              ELSE IF v = r.block THEN "self" ELSE IF v \in SeqToSet(r.anc) THEN "ancestor" ELSE "inrange"
Faults == UNION {{[k |-> k, v |-> v] : v \in CorruptVals(Refs[k])} : k \in 1..Len(Refs)}
Init == f \in Faults
Next == UNCHANGED f
Spec == Init /\ [][Next]_f
Emit == PrintT(ToJson([file |-> Refs[f.k].file, patch |-> <<<<Refs[f.k].off, f.v>>>>, kind |-> Kind(Refs[f.k], f.v), block |-> Refs[f.k].block,
                       type |-> Refs[f.k].type, ord |-> Refs[f.k].ord, was |-> Refs[f.k].val]))
=============================================================================
