SPECIFICATION Spec
CONSTANT MaxAll = 24
INVARIANT Emit
CHECK_DEADLOCK FALSE
