---------------------------- MODULE TexPathTrace ----------------------------
(* Trace validation for C19: each line is one clean-up performed by the real library through one texture slot kind:
   tokenised input p, output q, output of a second clean-up q2, flags.  *)
EXTENDS TexPath, TLC, Json, IOUtils
VARIABLE l
Tr == ndJsonDeserialize(IOEnv.TRACE)
\* the clean-up only trims, normalises separators, removes a prefix and adds the two known prefixes:
\* what remains after removing the added prefixes is a suffix of the separator-normalised trimmed input
Unprefixed(q, ter) == LET c == Core(q, ter) IN c
IsSuffixOf(s, t) == Len(s) <= Len(t) /\ SubSeq(t, Len(t) - Len(s) + 1, Len(t)) = s
Norm(p) == Slashes(Trim(p))
Suffixish(p, q, np, ter) ==
    LET c == Core(q, ter)
        d == IF np /\ StartsTex(c) /\ ~IsSuffixOf(c, Norm(p)) THEN Drop(c, 2) ELSE c
    IN  IsSuffixOf(c, Norm(p)) \/ IsSuffixOf(d, Norm(p)) \/ IsSuffixOf(q, Norm(p))
Clauses(ev) ==
    CASE ev.e = "clean" -> CanonicalViol(ev.p, ev.q, ev.np, ev.ter) \cup V(ev.q2 = ev.q, "Idempotent")
                           \cup V(ev.relocatedSame, "CleanPathUnchangedOnCopiedAndMovedModel")
                           \cup (IF Len(ev.p) <= 64 THEN V(Suffixish(ev.p, ev.q, ev.np, ev.ter), "OnlyRemovesPrefix") ELSE {})
      [] ev.e = "crash" -> {"NoCrash"}
      [] OTHER -> {}
Init == l = 1
Next == /\ l <= Len(Tr)
        /\ LET v == Clauses(Tr[l]) IN IF v = {} THEN TRUE ELSE PrintT(ToJson([viol |-> l, clauses |-> v]))
        /\ l' = l + 1
Spec == Init /\ [][Next]_l
=============================================================================
