----------------------------- MODULE NifSortMC -----------------------------
(***************************************************************************)
(* Design-level check of the sorter transcription (NifSort) over every     *)
(* graph of the "sort" alphabet of NifGraphMC with at most MaxBlocks       *)
(* blocks (OnlyAdd = TRUE: the states of the machine are the graphs).      *)
(*   SortTerminates  on every graph, also ill-typed, dangling and cyclic   *)
(*                   ones (Corrupt = TRUE), the walk ends within the fuel  *)
(*                   (C15: no hang, no unbounded recursion)                *)
(*   SortRefines     on well-typed acyclic graphs the result satisfies the *)
(*                   property-level relation of C04 (a permutation with    *)
(*                   stable references, node child sets kept, a parentless *)
(*                   node first) and sorting again changes nothing, for    *)
(*                   both version families                                 *)
(*   ShapeOrderRefines  the same for SetShapeOrder with every name list    *)
(* EmitSort exports (graph, family, expected order) for the conformance    *)
(* leg: the harness sorts the same graph built from real classes and the   *)
(* orders are compared (a difference the relation accepts is model drift). *)
(***************************************************************************)
EXTENDS NifGraphMC, NifSort
CONSTANTS Fuel, ExportSort

Dress(s) == [hs |-> s.hs, types |-> s.types, tidx |-> s.tidx, sz |-> s.sz, unk |-> FALSE,
             blocks |-> [k \in 1..N(s) |-> s.blocks[k] @@ [cid |-> k, size |-> 0, uid |-> k]]]
Wf(s) == WellTyped(s) /\ Acyclic(s)
NameLists == UNION {[1..n -> {"A", "B", "Z"}] : n \in 0..3}

SortTerminates == \A old \in BOOLEAN : ~PrettySort_Exact(Dress(st), old, Fuel).div
                  /\ \A nl \in NameLists : ~SetShapeOrder_Exact(Dress(st), old, nl, Fuel).div
SortRefines ==
    Wf(st) => \A old \in BOOLEAN :
        LET s  == Dress(st)
            r  == PrettySort_Exact(s, old, Fuel)
            r2 == PrettySort_Exact(r.t, old, Fuel)
        IN  SortViol(s, r.W, r.t, TRUE) = {} /\ IdempotentViol(r.t, r2.W, r2.t) = {}
ShapeOrderRefines ==
    Wf(st) => \A old \in BOOLEAN, nl \in NameLists :
        LET s == Dress(st)
            r == SetShapeOrder_Exact(s, old, nl, Fuel)
        IN  SortViol(s, r.W, r.t, FALSE) = {}
EmitSort == ExportSort =>
    PrintT(ToJson([g |-> st, wf |-> Wf(st),
                   sortOld |-> PrettySort_Exact(Dress(st), TRUE, Fuel).p, sortNew |-> PrettySort_Exact(Dress(st), FALSE, Fuel).p]))
=============================================================================
