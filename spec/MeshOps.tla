------------------------------ MODULE MeshOps ------------------------------
(***************************************************************************)
(* Abstract shape (geometry + skin + partitions + segments) and the        *)
(* relations of C09, C10, C13, C17 (and the per-shape part of C12).        *)
(* A shape record is what harness/mesh.cpp projects through the public     *)
(* accessors:                                                              *)
(*   nv, nt, labels (vertex i of a constructed mesh sits at (i,0,0), so    *)
(*   labels make vertex identity observable), pcid / vattr (content ids of *)
(*   position / of all other per-vertex attributes), lens (length of each  *)
(*   attribute array), tris, strips, bones, weights (per bone: <<v, w>>    *)
(*   with w in 1/1000), vweights (BSTriShape 4 slots), parts (skin         *)
(*   partitions: bones, vmap, tris (mapped or true), true, strips, bi,     *)
(*   pw), triParts, dismember, segs (FO4 ranges), segTriParts, locked.     *)
(* The naive definitions of IndexOps are the oracle for re-indexing.       *)
(***************************************************************************)
EXTENDS IndexOps, TLC

V(cond, name) == IF cond THEN {} ELSE {name}
IdxOK(q, n) == \A k \in 1..Len(q) : q[k] >= 0 /\ q[k] < n
TriOK(t, n) == \A c \in 1..3 : t[c] >= 0 /\ t[c] < n
TrisOK(T, n) == \A k \in 1..Len(T) : TriOK(T[k], n)
BagOf(q) == [x \in ToSet(q) |-> Cardinality({k \in 1..Len(q) : q[k] = x})]
\* equality of two sequences as multisets, with fast paths (BagOf is quadratic)
BagEq(a, b) == Len(a) = Len(b) /\ (a = b \/ (ToSet(a) = ToSet(b) /\ (Cardinality(ToSet(a)) = Len(a) \/ BagOf(a) = BagOf(b))))
\* a triangle up to rotation (winding kept): smallest corner first
Canon(t) == IF t[1] <= t[2] /\ t[1] <= t[3] THEN t ELSE IF t[2] <= t[1] /\ t[2] <= t[3] THEN <<t[2], t[3], t[1]>> ELSE <<t[3], t[1], t[2]>>
CanonSeq(T) == [k \in 1..Len(T) |-> Canon(T[k])]
AttrNames == {"uvs", "normals", "tangents", "bitangents", "colors", "eye", "uvsMore"}

(* ---------------- index validity / counters (C09) ---------------- *)
PartIdxLimit(t, p) == IF t.mapped THEN Len(p.vmap) ELSE t.nv
PartsIndexViol(t) ==
    V(\A i \in 1..Len(t.parts) : IdxOK(t.parts[i].vmap, t.nv), "PartitionVertexMapValid")
    \cup V(\A i \in 1..Len(t.parts) : TrisOK(t.parts[i].tris, PartIdxLimit(t, t.parts[i])), "PartitionTrianglesValid")
    \cup V(\A i \in 1..Len(t.parts) : TrisOK(t.parts[i]["true"], t.nv), "PartitionTrueTrianglesValid")
    \* the cached shape-indexed triangles of a partition, when present, are its triangles seen through its vertex map
    \cup V(\A i \in 1..Len(t.parts) : LET p == t.parts[i] IN
              (Len(p["true"]) = 0 \/ p.nstrips > 0 \/ ~TrisOK(p.tris, PartIdxLimit(t, p))) \/
              (Len(p["true"]) = Len(p.tris) /\ \A k \in 1..Len(p.tris) : \A c \in 1..3 :
                    p["true"][k][c] = (IF t.mapped THEN p.vmap[p.tris[k][c] + 1] ELSE p.tris[k][c])), "PartitionTrueTrianglesAgree")
    \cup V(\A i \in 1..Len(t.parts) : \A s \in 1..Len(t.parts[i].strips) : IdxOK(t.parts[i].strips[s], PartIdxLimit(t, t.parts[i])), "PartitionStripsValid")
    \cup V(Len(t.triParts) = 0 \/ (Len(t.triParts) = Len(t.tris) /\ \A k \in 1..Len(t.triParts) : t.triParts[k] < Len(t.parts)), "TriPartsAligned")
    \cup V(\A i \in 1..Len(t.parts) : (t.parts[i].nvw \in {0, Len(t.parts[i].vmap)}) /\ (t.parts[i].nbi \in {0, Len(t.parts[i].vmap)}), "PartitionPerVertexArraysAgree")
    \cup V(t.partVertData \in {-1, 0, t.nv}, "PartitionVertexDataCount")
\* leaf ranges in file order: a segment's own triangles come first, then its sub-segments; empty ranges carry no
\* triangles and their stored offset is not constrained; the non-empty ones must tile 0 .. 3 * nt in order
SubCount(seg) == FoldLeft(LAMBDA a, x : a + x.n, 0, seg.subs)
LeafRanges(t) == FlattenSeq([k \in 1..Len(t.segs) |-> <<[start |-> t.segs[k].start, n |-> t.segs[k].n - SubCount(t.segs[k])]>> \o t.segs[k].subs])
SegsViol(t) ==
    IF Len(t.segs) = 0 THEN {}
    ELSE LET R == SelectSeq(LeafRanges(t), LAMBDA r : r.n # 0)
             End(r) == r.start + 3 * r.n
         IN  V(\A k \in 1..Len(R) : R[k].n > 0, "SegmentCountsNonNegative")
             \cup V(Len(R) = 0 \/ (R[1].start = 0 /\ \A k \in 1..(Len(R) - 1) : R[k + 1].start = End(R[k])), "SegmentsContiguousAndOrdered")
             \cup V(FoldLeft(LAMBDA a, x : a + x.n, 0, t.segs) = t.nt, "SegmentsSumToTriangleCount")
             \cup V(\A k \in 1..Len(t.segTriParts) : t.segTriParts[k] >= 0, "EveryTriangleInOneSegment")
\* (IndexOps!StripTris is the strip decoding the format defines)
ShapeConsistentViol(t) ==
    V(Len(t.labels) = t.nv /\ Len(t.vattr) = t.nv /\ t.lens.verts = t.nv, "PerVertexArraysHaveVertexCount")
    \cup V(\A f \in AttrNames : t.lens[f] \in {0, t.nv}, "AttributeArraysHaveVertexCount")
    \cup V(t.isStrips \/ Len(t.tris) = t.nt, "TriangleCounterAgrees")
    \cup V(TrisOK(t.tris, t.nv), "TriangleIndicesValid")
    \cup V(\A s \in 1..Len(t.strips) : IdxOK(t.strips[s], t.nv), "StripIndicesValid")
    \cup V(~t.isStrips \/ t.tris = StripTris(t.strips), "TrianglesAreTheStripsDecoded")
    \cup V(\A b \in 1..Len(t.weights) : \A k \in 1..Len(t.weights[b]) : t.weights[b][k][1] < t.nv, "WeightIndicesValid")
    \cup V(\A b \in 1..Len(t.skinDataIdx) : IdxOK(t.skinDataIdx[b], t.nv), "SkinDataIndicesValid")
    \cup V(Len(t.vweights) \in {0, t.nv}, "VertexWeightsHaveVertexCount")
    \cup V(IdxOK(t.locked, t.nv), "LockedNormalsValid")
    \cup PartsIndexViol(t) \cup SegsViol(t)

(* ---------------- C09: DeleteVertsForShape(I) ---------------- *)
\* t = Erase(s, I) and m = CollapseMap(I, n), stated so that TLC evaluates them in O(n * |I|) on meshes of thousands of vertices
Deleted(I, n) == ToSet(I) \cap (0..(n - 1))
FastCollapse(I, n) == LET D == Deleted(I, n) IN [k \in 1..n |-> IF (k - 1) \in D THEN -1 ELSE (k - 1) - Cardinality({d \in D : d < k - 1})]
ErasedIs(t, s, m) == /\ Len(t) = Cardinality({k \in 1..Len(s) : m[k] >= 0})
                     /\ \A k \in 1..Len(s) : m[k] >= 0 => t[m[k] + 1] = s[k]
WeightsAfter(W, m) ==     \* per bone: surviving entries re-indexed through the collapse map m
    [b \in 1..Len(W) |-> LET A == SelectSeq(W[b], LAMBDA e : e[1] < Len(m) /\ m[e[1] + 1] >= 0) IN [k \in 1..Len(A) |-> <<m[A[k][1] + 1], A[k][2]>>]]
\* (the collapse map is bound through a singleton set so that TLC computes it once, not once per use)
DeleteVertsViolWith(s, I, t, m) ==
    V(t.nv = s.nv - Cardinality(Deleted(I, s.nv)), "ExactlyTheOtherVerticesRemain")
    \cup V(ErasedIs(t.pcid, s.pcid, m) /\ ErasedIs(t.labels, s.labels, m), "VerticesKeepOrderAndPosition")
    \cup V(ErasedIs(t.vattr, s.vattr, m), "VertexAttributesUnchanged")
    \cup V(\A f \in AttrNames : (s.lens[f] = 0) = (t.lens[f] = 0) \/ t.nv = 0, "NoAttributeArrayLostOrGained")
    \cup V(s.isStrips \/ t.nv = 0 \/ t.tris = MapTris(s.tris, m), "TrianglesWithoutDeletedVerticesInOrder")
    \cup V(t.nv = 0 \/ Len(t.weights) # Len(s.weights) \/ t.weights = WeightsAfter(s.weights, m), "SkinWeightsFollowTheirVertices")
    \* every surviving triangle stays in the partition it was in (when the assignment is at hand on both sides)
    \cup V((t.nv = 0 \/ s.isStrips \/ Len(s.triParts) = 0 \/ Len(s.triParts) # Len(s.tris) \/ Len(t.triParts) # Len(t.tris)) \/
           LET K == SelectSeq([k \in 1..Len(s.tris) |-> k], LAMBDA k : \A c \in 1..3 : m[s.tris[k][c] + 1] >= 0)
               \* (partitions that became empty are removed and the others move down: labels compare by their rank)
               Rank(q) == [j \in 1..Len(q) |-> Cardinality({x \in ToSet(q) : x < q[j]})]
           IN  Rank(t.triParts) = Rank([j \in 1..Len(K) |-> s.triParts[K[j]]]), "PartitionLabelsFollowTheirTriangles")
    \* ... and keeps its body part: the dismember entry of its partition carries the same id as before
    \cup V((t.nv = 0 \/ s.isStrips \/ ~s.isDismember \/ ~t.isDismember \/ Len(s.triParts) = 0 \/ Len(s.triParts) # Len(s.tris) \/ Len(t.triParts) # Len(t.tris)
            \/ ~IdxOK(SelectSeq(s.triParts, LAMBDA x : x >= 0), Len(s.dismember)) \/ ~IdxOK(SelectSeq(t.triParts, LAMBDA x : x >= 0), Len(t.dismember))) \/
           LET K == SelectSeq([k \in 1..Len(s.tris) |-> k], LAMBDA k : \A c \in 1..3 : m[s.tris[k][c] + 1] >= 0)
               Body(x, lab) == IF lab < 0 THEN -1 ELSE x.dismember[lab + 1][1]
           IN  Len(K) # Len(t.triParts) \/ \A j \in 1..Len(K) : Body(t, t.triParts[j]) = Body(s, s.triParts[K[j]]), "BodyPartsFollowTheirTriangles")
    \* the locked-normal list (ascending) names the same vertices as before, minus the deleted ones
    \cup V((t.nv = 0 \/ Len(s.locked) = 0 \/ ~(\A k \in 1..(Len(s.locked) - 1) : s.locked[k] < s.locked[k + 1]) \/ ~IdxOK(s.locked, s.nv)) \/
           LET K == SelectSeq(s.locked, LAMBDA x : m[x + 1] >= 0) IN t.locked = [j \in 1..Len(K) |-> m[K[j] + 1]], "LockedNormalsFollowTheirVertices")
    \* every surviving triangle stays in the segment / sub-segment it was in
    \cup V((t.nv = 0 \/ s.isStrips \/ Len(s.segs) = 0 \/ Len(s.segTriParts) # Len(s.tris) \/ Len(t.segTriParts) # Len(t.tris)) \/
           LET K == SelectSeq([k \in 1..Len(s.tris) |-> k], LAMBDA k : \A c \in 1..3 : m[s.tris[k][c] + 1] >= 0)
           IN  t.segTriParts = [j \in 1..Len(K) |-> s.segTriParts[K[j]]], "SegmentLabelsFollowTheirTriangles")
    \cup V(t.nv = 0 \/ Len(t.bones) = Len(s.bones), "BoneListKept")
    \cup (IF t.nv = 0 THEN {} ELSE ShapeConsistentViol(t))
DeleteVertsViol(s, I, t) == UNION {DeleteVertsViolWith(s, I, t, m) : m \in {FastCollapse(I, s.nv)}}
\* saving and reloading gives the same geometry
SameGeometryViol(t, r) ==
    V(r.nv = t.nv /\ r.pcid = t.pcid, "ReloadSameVertices") \cup V(r.vattr = t.vattr, "ReloadSameAttributes")
    \cup V(BagEq(CanonSeq(r.tris), CanonSeq(t.tris)), "ReloadSameTriangles")
    \cup V(r.weights = t.weights /\ r.bones = t.bones, "ReloadSameSkin")
    \cup V(Len(r.segs) = 0 \/ r.segs = t.segs, "ReloadSameSegments")

(* ---------------- C10: partitions cover the triangles exactly once ---------------- *)
TrueTrisOf(t, p) == IF Len(p["true"]) > 0 THEN p["true"]
                    ELSE IF t.mapped THEN [k \in 1..Len(p.tris) |-> <<p.vmap[p.tris[k][1] + 1], p.vmap[p.tris[k][2] + 1], p.vmap[p.tris[k][3] + 1]>>]
                    ELSE p.tris
AllPartTris(t) == FlattenSeq([i \in 1..Len(t.parts) |-> CanonSeq(TrueTrisOf(t, t.parts[i]))])
UsedVerts(T) == UNION {{T[k][1], T[k][2], T[k][3]} : k \in 1..Len(T)}
VertexWeightSum(t, v) == FoldLeft(LAMBDA a, b : a + b, 0,
                            [b \in 1..Len(t.weights) |-> FoldLeft(LAMBDA a, e : IF e[1] = v THEN a + e[2] ELSE a, 0, t.weights[b])])
AbsI(x) == IF x < 0 THEN -x ELSE x
WeightOf(t, b, v) == FoldLeft(LAMBDA a, e : IF e[1] = v THEN a + e[2] ELSE a, 0, t.weights[b])
\* what a partition says about one of its vertices (bone of the shape's list -> weight) against what the shape says:
\* BSTriShape vertex records, else NiSkinData (vertices with more than four influences keep the strongest four,
\* renormalised: not compared)
PartW(p, j, b) == FoldLeft(LAMBDA a, c : IF p.pw[j][c] > 0 /\ p.bi[j][c] < Len(p.bones) /\ p.bones[p.bi[j][c] + 1] = b THEN a + p.pw[j][c] ELSE a, 0, <<1, 2, 3, 4>>)
PartBones(p, j) == {p.bones[p.bi[j][c] + 1] : c \in {c \in 1..4 : p.pw[j][c] > 0 /\ p.bi[j][c] < Len(p.bones)}}
RecW(t, v, b) == FoldLeft(LAMBDA a, c : IF t.vweights[v + 1][c][2] > 0 /\ t.vweights[v + 1][c][1] = b THEN a + t.vweights[v + 1][c][2] ELSE a, 0, <<1, 2, 3, 4>>)
RecBones(t, v) == {t.vweights[v + 1][c][1] : c \in {c \in 1..4 : t.vweights[v + 1][c][2] > 0}}
DataBones(t, v) == {b \in 0..(Len(t.weights) - 1) : \E k \in 1..Len(t.weights[b + 1]) : t.weights[b + 1][k][1] = v /\ t.weights[b + 1][k][2] > 0}
PartVertexOK(t, p, j) ==
    LET v == p.vmap[j] IN
    IF p.pw[j][1] + p.pw[j][2] + p.pw[j][3] + p.pw[j][4] = 0 THEN TRUE     \* (the partition carries no weights for this vertex)
    ELSE IF Len(t.vweights) = t.nv /\ t.nv > 0
    THEN \A b \in PartBones(p, j) \cup RecBones(t, v) : AbsI(PartW(p, j, b) - RecW(t, v, b)) <= 3
    ELSE IF t.nv > 400 \/ Len(t.weights) = 0 \/ Cardinality(DataBones(t, v)) > 4 THEN TRUE
    ELSE \A b \in PartBones(p, j) \cup DataBones(t, v) : AbsI(PartW(p, j, b) - WeightOf(t, b + 1, v)) <= 3
PartitionViol(t, boneLimit) ==
    (IF PartsIndexViol(t) # {} THEN PartsIndexViol(t)
          ELSE V(BagEq(AllPartTris(t), CanonSeq(t.tris)), "EveryTriangleInExactlyOnePartition")
               \cup V(\A i \in 1..Len(t.parts) : LET p == t.parts[i] IN
                          (~p.hasVmap /\ Len(p.vmap) = 0) \/ (ToSet(p.vmap) = UsedVerts(TrueTrisOf(t, p)) /\ Cardinality(ToSet(p.vmap)) = Len(p.vmap)),
                      "VertexMapListsExactlyTheUsedVertices")
               \cup V(\A i \in 1..Len(t.parts) : LET p == t.parts[i] IN
                          (~t.mapped \/ Len(p.tris) = 0 \/ Len(p["true"]) = 0) \/
                          (Len(p.tris) = Len(p["true"]) /\ \A k \in 1..Len(p.tris) :
                              Canon(<<p.vmap[p.tris[k][1] + 1], p.vmap[p.tris[k][2] + 1], p.vmap[p.tris[k][3] + 1]>>) = Canon(p["true"][k])),
                      "MappedTrianglesTranslateBack")
               \cup V(\A i \in 1..Len(t.parts) : Len(t.parts[i].bones) <= boneLimit, "BoneLimit")
               \cup V(\A i \in 1..Len(t.parts) : IdxOK(t.parts[i].bones, Len(t.bones)), "PartitionBonesExist")
               \cup V(\A i \in 1..Len(t.parts) : \A k \in 1..Len(t.parts[i].bi) : IdxOK(t.parts[i].bi[k], IF Len(t.parts[i].bones) = 0 THEN 1 ELSE Len(t.parts[i].bones)), "BoneSlotsIndexPartitionBones")
               \cup V(\A b \in 1..Len(t.weights) : \A k \in 1..Len(t.weights[b]) : t.weights[b][k][2] >= 0, "WeightsNonNegative")
               \cup V(\A v \in 0..(t.nv - 1) : LET sm == VertexWeightSum(t, v) IN sm = 0 \/ (sm >= 990 /\ sm <= 1010), "WeightsSumToOne")
               \cup V(\A i \in 1..Len(t.parts) : \A k \in 1..Len(t.parts[i].pw) :
                          LET w == t.parts[i].pw[k] sm == w[1] + w[2] + w[3] + w[4] IN
                          (\A c \in 1..4 : w[c] >= 0) /\ (sm = 0 \/ (sm >= 990 /\ sm <= 1010)), "PartitionVertexWeightsNormalised")
               \cup V(\A k \in 1..Len(t.vweights) : \A c \in 1..4 :
                          t.vweights[k][c][2] >= 0 /\ (t.vweights[k][c][2] = 0 \/ t.vweights[k][c][1] < Len(t.bones)), "VertexBoneSlotsExist")
               \cup V(\A i \in 1..Len(t.parts) : LET p == t.parts[i] IN
                          (Len(p.bi) = 0 \/ Len(p.pw) # Len(p.bi) \/ Len(p.vmap) # Len(p.bi)) \/ \A j \in 1..Len(p.bi) : PartVertexOK(t, p, j),
                      "PartitionVertexWeightsAreTheShapes")
               \cup V(~t.isDismember \/ Len(t.dismember) = Len(t.parts), "DismemberListAligned"))

(* ---------------- C17: segmentation labels ---------------- *)
\* flattened order of the parts of a segmentation info: seg0, seg0.sub0, seg0.sub1, seg1, ...
FlatIds(info) == FlattenSeq([k \in 1..Len(info) |-> <<info[k].id>> \o info[k].subs])
NewLabel(info, l) == IF l < 0 THEN 0 ELSE (CHOOSE k \in 1..Len(FlatIds(info)) : FlatIds(info)[k] = l) - 1
SegmentationViol(s, info, L, t) ==
    V(t.nt = s.nt /\ Len(t.segTriParts) = t.nt, "TriangleCountKept")
    \cup V(BagEq([k \in 1..Len(s.tris) |-> <<Canon(s.tris[k]), NewLabel(info, L[k])>>], [k \in 1..Len(t.tris) |-> <<Canon(t.tris[k]), t.segTriParts[k]>>]),
           "LabelsRoundTripUpToRenumbering")
    \cup V(Len(t.segs) = Len(info) /\ \A k \in 1..Len(info) : Len(t.segs[k].subs) = Len(info[k].subs), "SegmentStructureAsGiven")
    \cup SegsViol(t) \cup V(TrisOK(t.tris, t.nv), "TriangleIndicesValid")
\* partition assignment (LE/SE/FO3 dismember partitions): each triangle with label l ends up in partition l
\* labels may name a partition beyond the given infos (it is created) or be -1 (unassigned: the call puts them somewhere)
PartAssignViol(s, L, t) ==
    V(BagEq(CanonSeq(t.tris), CanonSeq(s.tris)), "TrianglesArePermutation")
    \cup V(Len(t.triParts) = Len(t.tris) /\
           \A k \in 1..Len(s.tris) : L[k] >= 0 =>
               \E j \in 1..Len(t.tris) : Canon(t.tris[j]) = Canon(s.tris[k]) /\ t.triParts[j] = L[k], "PartitionLabelsRoundTrip")

(* ---------------- C13: a setter followed by its getter ---------------- *)
\* ev.attr is the attribute set, ev.given the per-vertex content ids of the values handed in, s/t the shape before/after
\* consistency of the per-vertex data and of every vertex index (segments / partitions are other properties' subject)
VertexConsistentViol(t) ==
    V(Len(t.labels) = t.nv /\ Len(t.vattr) = t.nv /\ t.lens.verts = t.nv, "PerVertexArraysHaveVertexCount")
    \cup V(\A f \in AttrNames : t.lens[f] \in {0, t.nv}, "AttributeArraysHaveVertexCount")
    \cup V(t.isStrips \/ Len(t.tris) = t.nt, "TriangleCounterAgrees")
    \cup V(TrisOK(t.tris, t.nv), "TriangleIndicesValid")
Companion(attr) == IF attr = "tangents" THEN "bitangents" ELSE IF attr = "bitangents" THEN "tangents" ELSE "none"
SetGetViol(s, attr, given, t) ==
    IF attr = "vertsN"        \* documented: a different vertex count drops the other vertex data
    THEN V(t.acid.verts = given /\ t.nv = Len(given), "GetterReturnsWhatWasSet")
         \cup V(\A f \in AttrNames : t.lens[f] \in {0, t.nv}, "AttributeArraysHaveVertexCount")
    ELSE IF attr = "tris"
    THEN V(t.tris = given, "GetterReturnsWhatWasSet") \cup V(t.acid = s.acid /\ t.nv = s.nv, "VertexDataUntouched") \cup VertexConsistentViol(t)
    ELSE V(t.acid[attr] = given, "GetterReturnsWhatWasSet")
         \cup V(\A f \in DOMAIN t.acid : f = attr \/ t.acid[f] = s.acid[f]
                                         \/ (f = Companion(attr) /\ Len(s.acid[f]) = 0 /\ Len(t.acid[f]) = t.nv), "OtherArraysUntouched")
         \cup V(t.nv = s.nv, "VertexCountKept")
         \cup V(t.tris = s.tris, "TrianglesUntouched")
         \cup VertexConsistentViol(t)
\* after save + reload every getter returns what it returned before
\* the first reload after writing through the API: the arrays that were given (exact values) come back, every array that
\* existed still exists with the vertex count, triangles as given
\* (tangents and bitangents belong to the normals in every format: a shape without normals cannot store them, and giving
\* them to such a shape is outside the setters' precondition)
Storable(t, f) == f \notin {"tangents", "bitangents"} \/ t.lens.normals > 0
FirstReloadViol(t, r, W) ==
    V(r.nv = t.nv /\ \A k \in 1..Len(W) : Storable(t, W[k]) => r.acid[W[k]] = t.acid[W[k]], "ReloadGivesBackWhatWasWritten")
    \cup V(\A f \in DOMAIN t.lens : Storable(t, f) => r.lens[f] = t.lens[f], "ReloadKeepsEveryArray") \cup V(r.tris = t.tris, "ReloadSameTriangles")
SameAfterReloadViol(t, r) == V(r.nv = t.nv /\ r.acid = t.acid, "ReloadSameVertexData") \cup V(r.tris = t.tris, "ReloadSameTriangles")

(* ---------------- C12: LE <-> SE conversion, per shape ---------------- *)
CloseSeqs(a, b, slack) == Len(a) = Len(b) /\ \A k \in 1..Len(a) : \A c \in 1..Len(a[k]) : AbsI(a[k][c] - b[k][c]) <= slack
\* weights of vertex v as a function bone name -> w (1/1000), zero entries dropped
WeightsClose(s, t, slack) ==
    Len(s.weights) = Len(t.weights) /\
    \A b \in 1..Len(s.weights) :
        LET bt == CHOOSE x \in 1..Len(t.bones) : t.bones[x] = s.bones[b] IN
        \A v \in {e[1] : e \in ToSet(s.weights[b])} \cup {e[1] : e \in ToSet(t.weights[bt])} :
            AbsI(WeightOf(s, b, v) - WeightOf(t, bt, v)) <= slack
ConvertShapeViol(s, t) ==
    V(t.nv = s.nv /\ t.pcid = s.pcid, "PositionsBitExact")
    \cup V(BagEq(CanonSeq(t.tris), CanonSeq(s.tris)), "SameTriangleSet")
    \* a strip shape's triangles are the ones its strips define (IndexOps!StripTris), whatever the accessor reports
    \cup V(~s.isStrips \/ BagEq(CanonSeq(t.tris), CanonSeq(StripTris(s.strips))), "SameTrianglesAsTheStripsDefine")
    \cup V(Len(s.uvq) = 0 \/ CloseSeqs(s.uvq, t.uvq, 2), "UVsWithinStoragePrecision")
    \cup V(Len(s.colq) = 0 \/ Len(t.colq) = 0 \/ CloseSeqs(s.colq, t.colq, 1), "ColoursWithinStoragePrecision")
    \cup V(Len(s.colq) = 0 \/ Len(t.colq) > 0 \/ \A k \in 1..Len(s.colq) : s.colq[k] = <<255, 255, 255, 255>>, "OnlyWhiteColoursMayBeDropped")
    \cup V(ToSet(t.bones) = ToSet(s.bones) /\ Len(t.bones) = Len(s.bones), "SameBoneList")
    \* (a source whose per-vertex weights are not visible through the accessor cannot be compared)
    \cup V(ToSet(t.bones) # ToSet(s.bones) \/ Len(t.bones) # Len(s.bones) \/ (\A b \in 1..Len(s.weights) : Len(s.weights[b]) = 0)
           \/ WeightsClose(s, t, 3), "SameVertexWeights")
    \cup V((s.shader = "") = (t.shader = "") /\ t.parent = s.parent, "ShaderAndParentKept")
ConvertViol(S, T) ==
    IF Len(S) # Len(T) THEN {"SameShapes"}
    ELSE UNION {ConvertShapeViol(S[k], T[k]) : k \in 1..Len(S)}
         \cup V(\A a, b \in 1..Len(T) : (a # b /\ T[a].parent = T[b].parent) => T[a].name # T[b].name, "SiblingShapesHaveDistinctNames")
=============================================================================
