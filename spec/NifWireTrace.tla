---------------------------- MODULE NifWireTrace ----------------------------
(* Trace validation for the wire properties C01, C02, C03, C07: every line is one execution of the real library
   (round trip, repeated save, unknown-block round trip) with the abstract files an independent reader sees. *)
EXTENDS NifWire, TLC, Json, IOUtils
VARIABLE l
Tr == ndJsonDeserialize(IOEnv.TRACE)
Tag(S, t) == {t \o ":" \o x : x \in S}
Clauses(ev) ==
    CASE ev.e = "rt" ->
            IF ev.load0 # 0 \/ ev.load1 # 0 THEN RoundTripViol(ev)
            ELSE RoundTripViol(ev) \cup Tag(WellFormedViol(ev.F1, ev.unk), "F1") \cup Tag(WellFormedViol(ev.F2, ev.unk), "F2")
                 \cup UNION {Tag(WellFormedViol(ev.G[k], ev.unk), "G") : k \in 1..Len(ev.G)}
      [] ev.e = "file" -> WellFormedViol(ev.f, ev.unk)
      \* an object as a container (NifObj.tla): what it writes is what a fresh object with the same content writes
      [] ev.e = "objsave" -> V(ev.built /\ ev.same, "ObjectWritesWhatAFreshObjectWithTheSameContentWrites")
                             \cup V(ev.sameDefault, "ObjectSavesByDefaultLikeAFreshObjectWithTheSameContent")
                             \cup V(ev.unk = ev.freshUnk, "ObjectKnowsWhetherItHoldsUnknownBlocks")
                             \cup WellFormedViol(ev.f, ev.unk)
      [] ev.e = "resave" -> RepeatSaveViol(ev)
      [] ev.e = "unknown" -> IF ev.load # 0 THEN {"RelabelledFileLoads"}
                             ELSE V(ev.hasUnknown, "UnknownDetected") \cup UnknownViol(ev.f, ev.g, {ev.U[k] : k \in 1..Len(ev.U)})
                                  \cup Tag(WellFormedViol(ev.g, TRUE), "g")
      [] ev.e = "enum" -> EnumViol(ev)
      [] ev.e = "twobuild" -> TwoBuildViol(ev)
      [] ev.e = "crash" -> {"NoCrash"}
      [] OTHER -> {}
Init == l = 1
Next == /\ l <= Len(Tr)
        /\ LET v == Clauses(Tr[l]) IN IF v = {} THEN TRUE ELSE PrintT(ToJson([viol |-> l, clauses |-> v]))
        /\ l' = l + 1
Spec == Init /\ [][Next]_l
=============================================================================
