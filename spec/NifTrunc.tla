------------------------------ MODULE NifTrunc ------------------------------
(***************************************************************************)
(* The crash points of C16: Truncate(file, k) = the first k bytes of a     *)
(* valid file.  For every loadable file the harness records the field tape *)
(* (offset of every read the loader performs on the intact file); the      *)
(* record [file, len, offs] holds the file length and a spread of those    *)
(* field offsets.  Every state is one crash point: every byte offset for   *)
(* files up to SmallLen bytes, otherwise the listed field boundaries -1,   *)
(* +0, +1 and +2 (inside the field) plus a stride over the whole file.     *)
(* TruncViol is the loader contract after the fault: the return code is    *)
(* one of the documented ones, a failed load leaves a cleared model, a     *)
(* successful one has as many blocks as its header says, and querying,     *)
(* copying, saving and destroying what was loaded all return.              *)
(***************************************************************************)
EXTENDS Integers, Sequences, FiniteSets, TLC, Json, IOUtils
CONSTANTS SmallLen, Stride, Sample, Phase
VARIABLE c
Tapes == ndJsonDeserialize(IOEnv.TAPES)
Around(r) == UNION {{o - 1, o, o + 1, o + 2} : o \in {r.offs[i] : i \in 1..Len(r.offs)}}
Points(r) == {k \in (IF r.len <= SmallLen THEN 0..(r.len - 1)
                     ELSE Around(r) \cup {j * Stride : j \in 0..(r.len \div Stride)}) : k >= 0 /\ k < r.len /\ (k % Sample = Phase % Sample \/ k < 64)}
Cases == UNION {{[file |-> Tapes[i].file, k |-> k] : k \in Points(Tapes[i])} : i \in 1..Len(Tapes)}
Init == c \in Cases
Next == UNCHANGED c
Spec == Init /\ [][Next]_c
Emit == PrintT(ToJson(c))
=============================================================================
