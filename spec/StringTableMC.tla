--------------------------- MODULE StringTableMC ---------------------------
(***************************************************************************)
(* Every small string table x reference indices x op sequence (up to L     *)
(* ops).  DesignOK: the transcription satisfies the statements of          *)
(* StringTable.tla at every step (a violation here is a property of the    *)
(* library's design, not of one execution).  Emit exports each case with   *)
(* the states the transcription goes through, for exact conformance on a   *)
(* real NiHeader.                                                          *)
(***************************************************************************)
EXTENDS StringTable, TLC, Json
CONSTANTS R, MaxTab, L, Export
VARIABLE c
Strs == {"", "a", "bb"}
Tabs == UNION {[1..n -> Strs] : n \in 0..MaxTab}
Idxs == [1..R -> (-1)..(MaxTab + 1)]
Ops == {[k |-> "set", r |-> r, s |-> s] : r \in 1..R, s \in Strs}
       \cup {[k |-> "new", r |-> r, s |-> s] : r \in 1..R, s \in Strs}
       \cup {[k |-> "add", s |-> s, e |-> e] : s \in Strs, e \in BOOLEAN}
       \cup {[k |-> "save", unk |-> u] : u \in BOOLEAN}
       \cup {[k |-> "fill"]}
OpSeqs == UNION {[1..n -> Ops] : n \in 0..L}
\* a loaded file: table and indices as stored, then FillStringRefs; versions without a string table only with short sequences
Start(x) == Fill_Exact([tab |-> x.tab, refs |-> [k \in 1..R |-> [idx |-> x.idx[k], str |-> ""]], maxLen |-> MaxLenOf(x.tab)], x.old)
States(x) == Run(Start(x), x.ops, x.old)
Before(x, j) == IF j = 1 THEN Start(x) ELSE States(x)[j - 1]
ModelViol(x) == UNION {StepViol(Before(x, j), States(x)[j], x.ops[j], x.old) : j \in 1..Len(x.ops)}
                \cup IF x.old THEN {} ELSE FillViol([tab |-> x.tab, refs |-> [k \in 1..R |-> [idx |-> x.idx[k], str |-> ""]], maxLen |-> 0], Start(x))
Init == \E t \in Tabs : \E i \in Idxs : \E o \in OpSeqs : \E old \in BOOLEAN :
            /\ (old => Len(o) <= 1)
            /\ c = [tab |-> t, idx |-> i, ops |-> o, old |-> old]
Next == UNCHANGED c
Spec == Init /\ [][Next]_c
DesignOK == ModelViol(c) = {}
Emit == Export => PrintT(ToJson([c |-> c, start |-> Start(c), states |-> States(c)]))
=============================================================================
