----------------------------- MODULE PartApiMC -----------------------------
(* Every history of up to L calls of the partition API (PartApi.tla) on a fan of NT triangles; exported for execution on
   real shapes of the versions with dismember partitions. Design-level sanity: labels only change by set, triangles only
   go by delv. *)
EXTENDS PartApi, TLC, Json
CONSTANTS NT, L, Export
VARIABLE c
Calls == {[k |-> "set", p |-> p] : p \in {"all0", "alt", "newid", "last", "each"}}
         \cup {[k |-> "update"], [k |-> "clean"], [k |-> "reload"], [k |-> "get"], [k |-> "default"]}
         \cup {[k |-> "delv", v |-> v] : v \in {1, 3}}
Hists == UNION {[1..n -> Calls] : n \in 1..L}
\* a history is worth running when it ends in a point the library is judged at
Judged(h) == h[Len(h)].k \in {"get", "update", "reload"}
Init == \E h \in Hists : Judged(h) /\ c = h
Next == UNCHANGED c
Spec == Init /\ [][Next]_c
Emit == Export => PrintT(ToJson([ops |-> c]))
=============================================================================
