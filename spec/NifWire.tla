------------------------------ MODULE NifWire ------------------------------
(***************************************************************************)
(* The abstract file: what an independent reader sees in bytes written by  *)
(* NifFile::Save.                                                          *)
(*   f = [parsed, walked, len, hdrLen, end, footer, nblocks,               *)
(*        hs, types, tidx, sizes, hasStrings, strings, maxLen,             *)
(*        blocks : Seq([type, size, cid, wrefs, wstrs])]                   *)
(* The header tables are read by a parser that shares no code with nifly;  *)
(* blocks are cut out by walking the size table from the end of the header *)
(* (end = offset reached); cid is the content id of a payload with its     *)
(* reference and string-index fields masked, wrefs / wstrs are the values  *)
(* of those fields (located through hooks H2/H3).                          *)
(*                                                                         *)
(*   WellFormed      C07  the header tables describe the written bytes     *)
(*   SameFile        byte-level equality, field by field (C01, C02)        *)
(*   RoundTripViol   C01  the round-trip machine Raw -> Normal             *)
(*   RepeatSaveViol  C02  consecutive saves of one live model              *)
(*   UnknownViol     C03  opaque blocks survive untouched                  *)
(***************************************************************************)
EXTENDS NifGraph

MaxOf(S) == IF S = {} THEN 0 ELSE CHOOSE x \in S : \A y \in S : x >= y
SumSeq(q) == FoldLeft(LAMBDA a, b : a + b, 0, q)

(* ---------------- C07 ---------------- *)
WellFormedViol(f, unk) ==
    IF ~f.parsed THEN {"HeaderParses"}
    ELSE V(Len(f.tidx) = f.nblocks, "TypeIndexPerBlock")
         \cup V(f.hs => Len(f.sizes) = f.nblocks, "SizePerBlock")
         \cup V(\A k \in 1..Len(f.tidx) : f.tidx[k] < Len(f.types), "TypeIndexInRange")
         \* the type the table gives a block is the type of the block the model wrote there (known from the writing model)
         \cup V(\A k \in 1..Len(f.blocks) : "mtype" \notin DOMAIN f.blocks[k] \/ f.blocks[k].mtype = f.blocks[k].type, "TypeTableNamesTheBlocks")
         \cup V(\A a \in 1..Len(f.types) : \E k \in 1..Len(f.tidx) : f.tidx[k] = a - 1, "NoUnusedTypeName")
         \cup V(\A a, b \in 1..Len(f.types) : a # b => f.types[a] # f.types[b], "TypeNamesDistinct")
         \cup V(f.walked /\ f.end + 8 = f.len, "SizeWalkLandsOnFooter")
         \cup V(f.walked => f.footer = <<1, 0>>, "Footer")
         \cup V(f.hs /\ f.walked => f.hdrLen + SumSeq(f.sizes) + 8 = f.len, "SizesSumToFileLength")
         \cup V(f.hasStrings => f.maxLen = MaxOf({Len(f.strings[k]) : k \in 1..Len(f.strings)}), "MaxStringLength")
         \cup V((f.hasStrings /\ ~unk) => \A a, b \in 1..Len(f.strings) : a # b => f.strings[a] # f.strings[b], "StringsOnce")
         \cup V(f.hasStrings => \A k \in 1..Len(f.blocks) : \A j \in 1..Len(f.blocks[k].wstrs) :
                    LET i == f.blocks[k].wstrs[j] IN i = -1 \/ (i >= 0 /\ i < Len(f.strings)), "StringIndexInTable")

(* ---------------- equality of files ---------------- *)
SameHeader(f, g) == f.nblocks = g.nblocks /\ f.types = g.types /\ f.tidx = g.tidx /\ f.sizes = g.sizes
                    /\ f.strings = g.strings /\ f.maxLen = g.maxLen /\ f.hdrLen = g.hdrLen
SameBlockBytes(a, b) == a.type = b.type /\ a.size = b.size /\ a.cid = b.cid /\ a.wrefs = b.wrefs /\ a.wstrs = b.wstrs
FirstDiff(f, g) == IF \E k \in 1..Len(f.blocks) : k > Len(g.blocks) \/ ~SameBlockBytes(f.blocks[k], g.blocks[k])
                   THEN CHOOSE k \in 1..Len(f.blocks) : (k > Len(g.blocks) \/ ~SameBlockBytes(f.blocks[k], g.blocks[k]))
                                                      /\ \A j \in 1..(k - 1) : j <= Len(g.blocks) /\ SameBlockBytes(f.blocks[j], g.blocks[j])
                   ELSE 0
SameFile(f, g) == f.len = g.len /\ SameHeader(f, g) /\ Len(f.blocks) = Len(g.blocks) /\ FirstDiff(f, g) = 0 /\ f.footer = g.footer

(* ---------------- C01: Load f0; SaveRaw -> F1; Load F1; SaveRaw -> F2, F3; G(k+1) = SaveDefault(Load(G(k))) ---------------- *)
RoundTripViol(ev) ==
    IF ev.load0 # 0 THEN {}                       \* not a file the library accepts: outside the quantifier
    ELSE IF ev.load1 # 0 THEN {"OwnOutputLoads"}
    ELSE V(SameFile(ev.F1, ev.F2), "RawSaveIsFixedPoint" \o (IF SameHeader(ev.F1, ev.F2) THEN "" ELSE ":header"))
         \cup V(ev.F1eqF2, "RawSaveIsFixedPointBytes")
         \cup V(ev.gload = 0, "DefaultSaveOutputLoads")
         \cup V(Len(ev.G) < 3 \/ SameFile(ev.G[2], ev.G[3]), "DefaultSaveConvergesInTwoRounds")
         \cup V(Len(ev.Geq) < 3 \/ ev.Geq[3], "DefaultSaveConvergesInTwoRoundsBytes")

(* ---------------- C02: three saves of one live model, queries before/after ---------------- *)
\* equality after canonical string-table renumbering: every string index is compared through the string it denotes
Resolved(f, b) == [j \in 1..Len(b.wstrs) |-> IF b.wstrs[j] >= 0 /\ b.wstrs[j] < Len(f.strings) THEN f.strings[b.wstrs[j] + 1] ELSE ""]
StringBag(f) == [x \in {f.strings[k] : k \in 1..Len(f.strings)} |-> Cardinality({k \in 1..Len(f.strings) : f.strings[k] = x})]
SameBlockModStrings(f, a, g, b) == a.type = b.type /\ a.size = b.size /\ a.cid = b.cid /\ a.wrefs = b.wrefs /\ Resolved(f, a) = Resolved(g, b)
SameFileModStrings(f, g) ==
    /\ f.len = g.len /\ f.nblocks = g.nblocks /\ f.types = g.types /\ f.tidx = g.tidx /\ f.sizes = g.sizes
    /\ StringBag(f) = StringBag(g) /\ f.maxLen = g.maxLen /\ Len(f.blocks) = Len(g.blocks) /\ f.footer = g.footer
    /\ \A k \in 1..Len(f.blocks) : SameBlockModStrings(f, f.blocks[k], g, g.blocks[k])
RepeatSaveViol(ev) ==
    V(~ev.hasFirst \/ SameFileModStrings(ev.Sfirst, ev.S0), "SecondDefaultSaveSameAsFirst")
    \cup V(SameFileModStrings(ev.S0, ev.S1), "SaveAfterQueriesSameAsSaveBefore")
    \cup V(SameFileModStrings(ev.S1, ev.S2), "SecondSaveSameAsFirst")
    \cup V(SameFileModStrings(ev.S2, ev.S3), "ThirdSaveSameAsSecond")
    \cup V(ev.q0 = ev.q1, "QueriesUnchangedByFirstSave")
    \* answers that name things (parents, bones, skeleton roots, shaders, textures) also survive the first, sorting default save
    \* (not after random block-graph edits: those may leave several candidate roots, and which one a sort puts first is C04's)
    \cup V(ev.variant = "edited" \/ (ev.namesBefore = ev.namesAfterFirst /\ ev.namesAfterFirst = ev.namesEnd), "NamedAnswersUnchangedByAnySave")
    \cup V(ev.q1 = ev.q2 /\ ev.q2 = ev.q3, "QueriesUnchangedByLaterSaves")
    \* a save that neither sorts nor prunes: the saved model answers like a twin of it that was never saved
    \cup V(~ev.twinComparable \/ ev.qTwin = ev.q0, "SavedModelAnswersLikeItsUnsavedTwin")

(* ---------------- C03: blocks relabelled as unknown survive untouched ---------------- *)
\* f: the input file (types of the set U relabelled), g: what Load+Save wrote
IsPrefixSeq(s, t) == Len(s) <= Len(t) /\ \A k \in 1..Len(s) : s[k] = t[k]
UnknownViol(f, g, U) ==
    IF Len(g.blocks) # Len(f.blocks) THEN {"NoBlockAddedOrDeleted"}
    ELSE V(\A k \in 1..Len(f.blocks) : g.blocks[k].type = f.blocks[k].type, "SameOrderAndTypeNames")
         \cup V(\A k \in 1..Len(f.blocks) : f.blocks[k].type \in U =>
                    (g.blocks[k].size = f.blocks[k].size /\ g.blocks[k].cid = f.blocks[k].cid), "OpaquePayloadUntouched")
         \cup V(IsPrefixSeq(f.strings, g.strings), "ExistingStringIndicesKeepTheirStrings")

(* ---------------- C05: every serialised reference is enumerated by its owner ---------------- *)
\* One record per populated instance of a block type.  Serialised references / string references and the results of the
\* enumerators are sets of object ordinals (identity = address inside the block); the dynamic leg writes the block again
\* after DeleteBlock(d), SetBlockOrder(p) and a rebuild of the string table and compares the written fields with what
\* the graph model predicts for them.
SeqSet(q) == {q[k] : k \in 1..Len(q)}
NonEmpty(q) == SelectSeq(q, LAMBDA x : x # NPOS)
EnumViol(ev) ==
    V(SeqSet(ev.readRefs) \subseteq SeqSet(ev.enumRefs) \cup SeqSet(ev.enumPtrs), "ReadRefsEnumerated")
    \cup V(SeqSet(ev.writeRefs) \subseteq SeqSet(ev.enumRefsW) \cup SeqSet(ev.enumPtrsW), "WrittenRefsEnumerated")
    \cup V(~ev.stringTable \/ SeqSet(ev.readStrs) \subseteq SeqSet(ev.enumStrs), "ReadStringRefsEnumerated")
    \cup V(~ev.stringTable \/ SeqSet(ev.writeStrs) \subseteq SeqSet(ev.enumStrsW), "WrittenStringRefsEnumerated")
    \cup V(Bag(ev.childIndices) = Bag(ev.childRefValues), "ChildIndicesMatchChildRefs")
    \* reference arrays drop emptied entries when written (by design), so empty fields are left out on both sides
    \cup V(NonEmpty(ev.afterDelete) = NonEmpty([k \in 1..Len(ev.before) |-> ShiftRef(ev.before[k], ev.deleted)]), "NoStaleIndexAfterDelete")
    \cup V(NonEmpty(ev.afterOrder) = NonEmpty([k \in 1..Len(ev.before) |-> MapRef(ev.before[k], ev.order)]), "NoStaleIndexAfterReorder")
    \cup V(~ev.stringTable \/ ev.stringsAfterRebuild = ev.stringsBefore, "NoStaleStringIndexAfterRebuild")

(* ---------------- C08: the reference build and the current build read and re-encode the same file the same way ---------------- *)
\* ev.ref / ev.cur: [rc, in, out] of Load + raw Save of one file by each build; ev.writer says which build wrote the file
SameDescribed(a, b) == a.len = b.len /\ a.nblocks = b.nblocks /\ a.types = b.types /\ a.tidx = b.tidx /\ a.sizes = b.sizes
                       /\ a.strings = b.strings /\ a.blockHashes = b.blockHashes /\ a.whole = b.whole
\* ev.refBroken: the reference build does not re-encode its own normal form of this configuration to itself (a defect of the
\* pinned release, e.g. the FO76/Starfield lighting shader types it decrements on every write): "compatible with the
\* reference" says nothing there, the configuration is outside the quantifier
TwoBuildViol(ev) ==
    IF ev.refBroken THEN {} ELSE
    V(ev.ref.rc = ev.cur.rc, "SameLoadResult")
    \* a file one of the builds wrote is a file that build loads
    \cup V((ev.writer = "cur" => ev.cur.rc = 0) /\ (ev.writer = "ref" => ev.ref.rc = 0), "WriterLoadsItsOwnFile")
    \cup (IF ev.ref.rc # 0 \/ ev.cur.rc # 0 THEN {}
          ELSE V(SameDescribed(ev.ref.out, ev.cur.out), "SameReEncoding")
               \* ... and both took the bytes for the same fields: the multiset of (kind, size, value) each build writes
               \* (a field moved inside a record reads other bytes, and writes them back where it found them)
               \cup V(ev.ref.vals = ev.cur.vals, "SameFieldValues")
               \* a file in normal form written by one build is consumed block by block and re-encoded identically by the other
               \cup V(ev.writer = "sample" \/ ~ev.ref["in"].hs \/ ev.ref.out.sizes = ev.ref["in"].sizes, "ReferenceConsumesEveryBlockExactly")
               \cup V(ev.writer = "sample" \/ ~ev.cur["in"].hs \/ ev.cur.out.sizes = ev.cur["in"].sizes, "CurrentConsumesEveryBlockExactly")
               \cup V(ev.writer = "sample" \/ ev.cur.out.whole = ev.cur["in"].whole, "CurrentReEncodesToIdenticalBytes")
               \cup V(ev.writer = "sample" \/ ev.ref.out.whole = ev.ref["in"].whole, "ReferenceReEncodesToIdenticalBytes"))
=============================================================================
