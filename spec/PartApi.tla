------------------------------ MODULE PartApi ------------------------------
(***************************************************************************)
(* The skin-partition API as a machine (C10, C17): a skinned fan of NT     *)
(* triangles (0, k, k+1), k = 1..NT, and every order of the calls a tool   *)
(* can make on it:                                                         *)
(*   set(p)     read the partitions, relabel the triangles by pattern p,   *)
(*              SetShapePartitions                                         *)
(*   update     UpdateSkinPartitions                                       *)
(*   clean      RemoveEmptyPartitions                                      *)
(*   delv(v)    DeleteVertsForShape({v})                                   *)
(*   reload     save, load                                                 *)
(*   get        GetShapePartitions                                         *)
(*   default    SetDefaultPartition                                        *)
(* The abstract state is the label of every triangle by its identity k     *)
(* (-2: the triangle is gone).  What the library must show:                *)
(*   after get      the labels it returns are the assigned ones up to the  *)
(*                  renumbering that removed partitions cause (by rank),   *)
(*                  and the triangles are exactly the surviving ones       *)
(*   after update / reload   the full partition invariants (PartitionViol) *)
(* Which point of a history the library promises consistency at is what    *)
(* the call orders probe: TLC enumerates every history up to L calls.      *)
(***************************************************************************)
EXTENDS MeshOps
Gone == -2
\* state: lab[k] = label of triangle k (Gone: deleted); fresh = no vertex was deleted since the partitions were last
\* rebuilt or reassigned (C10 speaks about that point; after a deletion C09 asks for validity and coverage only)
Alive(a) == {k \in DOMAIN a.lab : a.lab[k] # Gone}
\* patterns are stated on triangle identities; np is the number of partitions the library reported when the labels were read
Relabel(a, p, np) ==
    LET top == CHOOSE k \in Alive(a) : \A j \in Alive(a) : j <= k IN
    [k \in DOMAIN a.lab |->
        IF a.lab[k] = Gone THEN Gone
        ELSE CASE p = "all0" -> 0
               [] p = "alt" -> k % 2
               [] p = "newid" -> IF k = top THEN np ELSE 0
               [] p = "last" -> IF np >= 2 THEN np - 1 ELSE 0
               [] p = "each" -> k - 1]
\* delv(v): the triangles (0, k, k+1) that use vertex v go
Uses(k, v) == v = 0 \/ v = k \/ v = k + 1
Step(a, op) ==
    CASE op.k = "set" -> IF Alive(a) = {} THEN a
                         ELSE LET nl == Relabel(a, op.p, op.np) IN
                              \* body[k]: the body part id of the info given for k's label (op.pids: the ids of the infos passed)
                              [lab |-> nl, fresh |-> TRUE, body |-> [k \in DOMAIN nl |-> IF nl[k] = Gone THEN -1 ELSE op.pids[nl[k] + 1]]]
      \* SetDefaultPartition: one partition, every triangle in it (its body part id is the library's choice: not judged).
      \* Its vertex map lists every vertex of the shape, used or not, until the next rebuild: like after a deletion, a reload
      \* in this state is judged for validity and coverage only.
      [] op.k = "default" -> [lab |-> [k \in DOMAIN a.lab |-> IF a.lab[k] = Gone THEN Gone ELSE 0], fresh |-> FALSE,
                              body |-> [k \in DOMAIN a.lab |-> -1]]
      [] op.k = "update" -> [a EXCEPT !.fresh = TRUE]
      [] op.k = "delv" -> [a EXCEPT !.lab = [k \in DOMAIN a.lab |-> IF Uses(k, op.v) THEN Gone ELSE a.lab[k]], !.fresh = FALSE]
      [] OTHER -> a
RECURSIVE RunApi(_, _)
RunApi(a, ops) == IF ops = <<>> THEN <<>> ELSE LET b == Step(a, Head(ops)) IN <<b>> \o RunApi(b, Tail(ops))
\* (the body part of the built shape's single partition is not fixed by the model: -1 = not judged until the first set)
StartApi(nt) == [lab |-> [k \in 1..nt |-> 0], fresh |-> TRUE, body |-> [k \in 1..nt |-> -1]]
RankOf(q) == [j \in 1..Len(q) |-> Cardinality({x \in ToSet(q) : x < q[j]})]
\* o: what was recorded after the op: [ids : identity of every current triangle, tp : labels returned (get only), t : shape]
ObsViol(a, op, o, boneLimit) ==
    V(ToSet(o.ids) = Alive(a) /\ Len(o.ids) = Cardinality(Alive(a)), "ExactlyTheSurvivingTriangles")
    \cup (IF op.k = "get" /\ ToSet(o.ids) = Alive(a) /\ Alive(a) # {}
          THEN V(o.got /\ Len(o.tp) = Len(o.ids) /\ RankOf(o.tp) = RankOf([j \in 1..Len(o.ids) |-> a.lab[o.ids[j]]]), "LabelsAreTheAssignedOnesUpToRenumbering")
               \cup V(Len(o.bodies) # Len(o.ids) \/ \A j \in 1..Len(o.ids) : a.body[o.ids[j]] = -1 \/ o.bodies[j] = a.body[o.ids[j]], "BodyPartsFollowTheirTriangles")
          ELSE {})
    \cup (IF Alive(a) = {} THEN {}
          ELSE IF op.k = "update" \/ (op.k = "reload" /\ a.fresh) THEN PartitionViol(o.t, boneLimit)
          ELSE IF op.k = "reload" /\ Len(o.t.parts) > 0
               THEN PartsIndexViol(o.t) \cup (IF PartsIndexViol(o.t) = {} THEN V(BagEq(AllPartTris(o.t), CanonSeq(o.t.tris)), "PartitionsStillHoldEveryTriangleOnce") ELSE {})
          ELSE {})
=============================================================================
