-------------------------- MODULE IndexOpsTrace --------------------------
(***************************************************************************)
(* Trace validation for C18: every line of the ndjson log is one call of   *)
(* a real nifly index utility (arguments + result).  The only TLC variable *)
(* is the position l; each step re-evaluates the naive definition of       *)
(* IndexOps on the logged arguments and compares it with the logged        *)
(* result.  Rejections are printed as JSON and decided by bin/check.       *)
(***************************************************************************)
EXTENDS IndexOps, TLC, Json, IOUtils
VARIABLE l
Tr == ndJsonDeserialize(IOEnv.TRACE)

KeyedMapOf(keys) == {<<keys[k], 100 + keys[k]>> : k \in 1..Len(keys)}

\* expected run-length encoding of Erase(Iota(n), I), computed from I alone (for the 65535-element edge cases)
ExpectedRuns(n, I) ==
    LET D == <<-1>> \o SelectSeq(I, LAMBDA x : x < n) \o <<n>>
        R == [k \in 1..(Len(D) - 1) |-> <<D[k] + 1, D[k + 1] - D[k] - 1>>]
    IN  SelectSeq(R, LAMBDA r : r[2] > 0)
\* the harness merges adjacent runs only when values are consecutive, which equals the runs above

CallOK(r) ==
    LET c == r.c
        o == r.r
    IN  CASE c.fn = "erase"    -> o.out = Erase(Iota(c.n), c.I)
          [] c.fn = "insert"   -> IF InsertValid(Iota(c.n), c.I) THEN IsInsertOf(o.out, Iota(c.n), c.I)
                                  ELSE TRUE     \* out-of-range list: only memory safety is required
          [] c.fn = "collapse" -> o.out = CollapseMap(c.I, c.n)
          [] c.fn = "expand"   -> o.out = ExpandMap(c.I, c.n)
          [] c.fn = "maptris"  -> o.out = MapTris(c.T, c.m) /\ o.deleted = DeletedTris(c.T, c.m)
          [] c.fn = "mapkeys"  -> LET M == KeyedMapOf(c.keys) IN
                                  IF KeysCollide(M, c.m, c.off)
                                  THEN {p[1] : p \in ToSet(o.out)} = {p[1] : p \in MapKeys(M, c.m, c.off)}
                                  ELSE ToSet(o.out) = MapKeys(M, c.m, c.off)
          [] c.fn = "strips"   -> o.out = StripTris(c.strips)

EdgeOK(r) ==
    LET k == Cardinality({x \in ToSet(r.I) : x < r.n})
    IN  /\ r.runs = ExpectedRuns(r.n, r.I)
        /\ r.cmNeg = k /\ r.cmLast = r.n - k - 1 /\ r.cmMono

Clauses(r) ==
    CASE r.e = "call"  -> IF CallOK(r) THEN {} ELSE {"Definition"}
      [] r.e = "edge"  -> IF EdgeOK(r) THEN {} ELSE {"Definition16bit"}
      [] r.e = "crash" -> {"NoCrash"}
      [] OTHER         -> {}

Init == l = 1
Next == /\ l <= Len(Tr)
        /\ LET v == Clauses(Tr[l]) IN IF v = {} THEN TRUE ELSE PrintT(ToJson([viol |-> l, clauses |-> v]))
        /\ l' = l + 1
Spec == Init /\ [][Next]_l
=============================================================================
