--------------------------- MODULE NifGraphTrace ---------------------------
(***************************************************************************)
(* Trace validation of block-graph operations executed by the real        *)
(* library (C06; also used for the sorting/pruning events of C04 and the   *)
(* fault events of C15).  Each log line carries the operation, and the     *)
(* full projected state before and after it, with block uids.  The         *)
(* witness W (old position -> new position) is derived from the uids, and  *)
(* the property-level relation XViol of NifGraph is evaluated on           *)
(* (pre, W, post).  The only TLC variable is the line number.              *)
(***************************************************************************)
EXTENDS NifSort, TLC, Json, IOUtils
VARIABLE l
Tr == ndJsonDeserialize(IOEnv.TRACE)

PosOfUid(t, u) == IF \E j \in 1..N(t) : t.blocks[j].uid = u THEN CHOOSE j \in 1..N(t) : t.blocks[j].uid = u ELSE 0
UidW(s, t) == [k \in 1..N(s) |-> PosOfUid(t, s.blocks[k].uid)]
UidsDistinct(t) == \A a, b \in 1..N(t) : a # b => t.blocks[a].uid # t.blocks[b].uid
NoNullBlock(t) == \A k \in 1..N(t) : t.blocks[k].type # "NULL"
Slots(t) == V(UidsDistinct(t), "NoDuplicateBlock") \cup V(NoNullBlock(t), "NoNullSlot") \cup V(t.hdrBlocks = N(t), "HeaderBlockCount")

StepViol(ev) ==
    LET s == ev.pre
        t == ev.post
        a == ev.a
        W == UidW(s, t)
    IN  Slots(t) \cup
        (CASE a.op = "Add"        -> AddViol(s, W, t)
           [] a.op = "Del"        -> DeleteViol(s, a.i, W, t)
           [] a.op = "Rep"        -> ReplaceViol(s, a.i, [W EXCEPT ![a.i + 1] = a.i + 1], t)
           [] a.op = "Ord"        -> OrderViol(s, a.p, W, t)
           [] a.op = "DelT"       -> DeleteByTypeViol(s, a.t, a.orphaned, W, t)
           [] a.op = "Prune"      -> PruneViol(s, W, t)
           [] a.op = "PruneNodes" -> PruneNodesViol(s, W, t)
           [] OTHER               -> {"UnknownOp"})

SortEvViol(ev) ==
    LET s == ev.pre
        t == ev.post
        W == UidW(s, t)
    IN  Slots(t) \cup
        (CASE ev.op = "Sort"        -> SortViol(s, W, t, TRUE)
           [] ev.op = "Sort2"       -> SortViol(s, W, t, TRUE) \cup IdempotentViol(s, W, t)
           [] ev.op = "ShapeOrder"  -> SortViol(s, W, t, FALSE)
           [] ev.op = "SaveRaw"     -> V(N(t) = N(s) /\ W = IdW(N(s)), "RawSaveMovesNoBlock") \cup V(RefsStableBags(s, W, t), "RefsStable")
           [] ev.op = "SortCorrupt" -> {}      \* (C15: corrupt graph; compared with the sorter transcription only)
           [] ev.op = "Optimize"    -> OptimizeViol(s, W, t)
           [] ev.op = "SaveDefault" -> SaveDefaultViol(s, W, t) \cup FileViol(t, ev.file)
           [] ev.op = "SaveDefault2" -> SaveDefaultViol(s, W, t) \cup FileViol(t, ev.file) \cup IdempotentViol(s, W, t)
           [] OTHER                 -> {"UnknownOp"})

Clauses(ev) ==
    CASE ev.e = "step"   -> StepViol(ev)
      [] ev.e = "mstep"  -> Slots(ev.post) \cup ModelOpViol(ev.pre, ev.a, UidW(ev.pre, ev.post), ev.post)
      [] ev.e = "sort"   -> SortEvViol(ev)
      [] ev.e = "reloaddef" -> IF ev.rc # 0 THEN {"DefaultSaveLoadsAgain"}
                               ELSE V(N(ev.post) <= ev.before, "DefaultSaveAddsNoBlock") \cup V(HeaderMirror(ev.post), "HeaderMirror")
      [] ev.e = "reload" -> IF ev.rc # 0 THEN {"ReloadFails"} ELSE ReloadViol(ev.pre, ev.post)
      [] ev.e = "fault"  -> V(ev.load = 0, "StillLoads") \cup
                            (IF ev.load # 0 THEN {} ELSE V(ev.save = 0, "SaveReturns") \cup V(ev.reload = 0, "SavedFileLoads"))
      [] ev.e = "trunc"  -> V(ev.rc \in {0, 1, 2, 3}, "DocumentedReturnCode")
                            \cup V(ev.rc = 0 \/ (~ev.valid /\ ev.blocks = 0), "FailedLoadLeavesClearedModel")
                            \cup V(ev.rc # 0 \/ (ev.valid /\ ev.blocks = ev.hdrBlocks), "LoadedModelHasItsBlocks")
                            \cup V(ev.rc # 0 \/ ev.save = 0, "WhatWasLoadedCanBeSaved")
      [] ev.e = "crash"  -> {"NoCrash"}
      [] OTHER           -> {}

\* exactness of the sorter transcription (NifSort) on the enumerated graphs: the real library must produce the very order
\* and child lists the transcription computes.  A difference is model drift (reported, never a violation): design-level
\* results about the sorter (NifSortMC) transfer to the code only while this holds.
SortExact(ev) ==
    IF ev.e # "sort" \/ "graph" \notin DOMAIN ev.case \/ ev.op \notin {"Sort", "Sort2", "ShapeOrder", "SortCorrupt"} THEN TRUE
    ELSE LET s   == ev.pre
             old == s.ver \in {"OB", "FO3"}
             r   == IF ev.op = "ShapeOrder" THEN SetShapeOrder_Exact(s, old, ev.names, 500) ELSE PrettySort_Exact(s, old, 500)
         IN  ~r.div /\ N(ev.post) = N(r.t) /\ UidW(s, ev.post) = r.W
             /\ \A k \in 1..N(r.t) : r.t.blocks[k].refs = ev.post.blocks[k].refs /\ r.t.blocks[k].ptrs = ev.post.blocks[k].ptrs

Init == l = 1
Next == /\ l <= Len(Tr)
        /\ LET v == Clauses(Tr[l]) IN IF v = {} THEN TRUE ELSE PrintT(ToJson([viol |-> l, clauses |-> v]))
        /\ IF SortExact(Tr[l]) THEN TRUE ELSE PrintT(ToJson([drift |-> l, what |-> "sorter transcription differs"]))
        /\ l' = l + 1
Spec == Init /\ [][Next]_l
=============================================================================
