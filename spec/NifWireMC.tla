----------------------------- MODULE NifWireMC -----------------------------
(***************************************************************************)
(* The round-trip machine of C01 over the configuration space.  A          *)
(* configuration is (block type, version, population mode, boosted field); *)
(* the machine walks  Synth -> SaveRaw0 -> Load0 -> SaveRaw1 -> Load1 ->   *)
(* SaveRaw2 -> SaveRaw3  and the default chain  Load -> SaveDefault (x4).  *)
(* It is deterministic: TLC's job is to enumerate the configuration space  *)
(* (types are read from the environment: the list the factory registers)   *)
(* and export each configuration; the harness executes exactly those and   *)
(* NifWireTrace judges the recorded files.  The obligations per phase are  *)
(* the invariants named in the comments.                                   *)
(***************************************************************************)
EXTENDS Integers, Sequences, TLC, Json, IOUtils
CONSTANTS Versions, Modes, NBoost, Stride, Offset,
          UseDiscr     \* also the settings found by the value sweep (harness command c01-probe): one or two scalar fields of the
                       \* generator input fixed to a value that steers the layout of the block (IOEnv.DISCR, one JSON record per line)
VARIABLES cfg, phase
TypeList == ndJsonDeserialize(IOEnv.TYPES)          \* one JSON string per line
Picked == {k \in 1..Len(TypeList) : (k - 1) % Stride = Offset % Stride}
Discr == IF UseDiscr THEN ndJsonDeserialize(IOEnv.DISCR) ELSE <<>>
Configs == {[type |-> TypeList[k], ver |-> v, mode |-> m, boost |-> b, ov |-> <<>>] : k \in Picked, v \in Versions, m \in Modes, b \in {-1} \cup (0..(NBoost - 1))}
           \cup {[type |-> Discr[i].type, ver |-> Discr[i].ver, mode |-> Discr[i].mode, boost |-> -1, ov |-> Discr[i].ov] : i \in 1..Len(Discr)}
Phases == <<"Synth", "SaveRaw0", "Load0", "SaveRaw1", "Load1", "SaveRaw2", "SaveRaw3", "DefaultChain", "Done">>
\*            |          |           |        |           |        |           |          '- G3 = G2, every G well formed
\*            |          |           |        |           |        |           '- F3 = F2 (repeat save, C02)
\*            |          |           |        |           |        '- F2 = F1 byte for byte (the fixed point)
\*            |          |           |        |           '- rc = 0: own output loads
\*            |          |           |        '- F1 well formed (C07)
\*            |          |           '- rc = 0 or the instance is outside the quantifier
\*            |          '- f0: some file the library wrote
\*            '- populated instance from the typed generator (discarded if the generator exceeds its budget)
Init == cfg \in Configs /\ phase = 1
Next == phase < Len(Phases) /\ phase' = phase + 1 /\ UNCHANGED cfg
Spec == Init /\ [][Next]_<<cfg, phase>>
Emit == phase = 1 => PrintT(ToJson(cfg))
=============================================================================
