SPECIFICATION Spec
CONSTANT MaxAll = 6
INVARIANT Emit
CHECK_DEADLOCK FALSE
