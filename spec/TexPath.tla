------------------------------ MODULE TexPath ------------------------------
(***************************************************************************)
(* Texture path clean-up (NifFile::TrimTexturePaths, src/NifFile.cpp) over *)
(* a token alphabet.  A path is a sequence of tokens; each token stands    *)
(* for the character string on the right:                                  *)
(*   "BS" \   "FS" /   "SP" space   "NL" newline   "DOT" .   "COL" :       *)
(*   "a" a    "b" b    "T" textures "TU" TEXTURES  "D" data  "DD" Data     *)
(* For this alphabet the character-level regex pipeline and the token-     *)
(* level transcription below coincide (no token is a proper part of the    *)
(* words the regexes look for).                                            *)
(*                                                                         *)
(*   Clean_Exact : transcription of the pipeline, stage by stage           *)
(*   Canonical   : the property (C19), independent of the pipeline         *)
(***************************************************************************)
EXTENDS Integers, Sequences, FiniteSets, SequencesExt

Tokens == {"BS", "FS", "SP", "NL", "DOT", "COL", "a", "b", "T", "TU", "D", "DD"}
IsSpace(t) == t \in {"SP", "NL"}
IsTex(t) == t \in {"T", "TU"}
IsData(t) == t \in {"D", "DD"}
StartsTex(p) == Len(p) >= 2 /\ IsTex(p[1]) /\ p[2] = "BS"          \* ^textures\\  (icase)
StartsData(p) == Len(p) >= 2 /\ IsData(p[1]) /\ p[2] = "BS"        \* ^Data\\      (icase)
Drop(p, n) == SubSeq(p, n + 1, Len(p))

(* ---- stage 1: trim_whitespace ---- *)
RECURSIVE TrimLeft(_), TrimRight(_)
TrimLeft(p) == IF Len(p) > 0 /\ IsSpace(p[1]) THEN TrimLeft(Tail(p)) ELSE p
TrimRight(p) == IF Len(p) > 0 /\ IsSpace(p[Len(p)]) THEN TrimRight(SubSeq(p, 1, Len(p) - 1)) ELSE p
Trim(p) == TrimRight(TrimLeft(p))

(* ---- stage 2: regex_replace("[/\\\\]+", "\\") : every maximal run of slashes of either kind becomes one backslash ---- *)
IsSlash(t) == t \in {"BS", "FS"}
RECURSIVE Slashes(_)
Slashes(p) ==
    IF p = <<>> THEN <<>>
    ELSE IF IsSlash(p[1])
         THEN LET k == CHOOSE n \in 1..Len(p) : (\A i \in 1..n : IsSlash(p[i])) /\ (n = Len(p) \/ ~IsSlash(p[n + 1]))
              IN  <<"BS">> \o Slashes(Drop(p, k))
         ELSE <<p[1]>> \o Slashes(Tail(p))

(* ---- stage 2b: terrain: the "Data\" prefix is removed here and added again at the end ---- *)
DropData(p, terrain) == IF terrain /\ StartsData(p) THEN Drop(p, 2) ELSE p

(* ---- stage 3: while ^(?!textures\\)[\s\S]*?\\textures\\ matches, remove the match (lazy: up to the first folder) ---- *)
FolderAt(p, i) == i + 2 <= Len(p) /\ p[i] = "BS" /\ IsTex(p[i + 1]) /\ p[i + 2] = "BS"
RECURSIVE StripToFolder(_)
StripToFolder(p) ==
    IF StartsTex(p) THEN p
    ELSE LET C == {i \in 1..Len(p) : FolderAt(p, i)}
         IN  IF C = {} THEN p ELSE StripToFolder(Drop(p, (CHOOSE i \in C : \A j \in C : i <= j) + 2))

(* ---- stage 4: remove backslashes and whitespace from the front ---- *)
RECURSIVE NoLeadBS(_)
NoLeadBS(p) == IF Len(p) > 0 /\ (p[1] = "BS" \/ IsSpace(p[1])) THEN NoLeadBS(Tail(p)) ELSE p

(* ---- stages 5/6: prefixes (is_relative_path is TRUE for every path without '/' on POSIX) ---- *)
AddTex(p, needsPrefix) == IF needsPrefix /\ ~StartsTex(p) THEN <<"T", "BS">> \o p ELSE p
AddData(p, terrain) == IF terrain THEN <<"DD", "BS">> \o p ELSE p      \* an existing prefix was removed in stage 2b

Clean_Exact(p, needsPrefix, terrain) ==
    IF p = <<>> THEN p
    ELSE LET t == Trim(p) IN
         IF t = <<>> THEN t
         ELSE AddData(AddTex(NoLeadBS(StripToFolder(DropData(NoLeadBS(Slashes(t)), terrain))), needsPrefix), terrain)

(* ---- the property ---- *)
Blank(p) == \A i \in 1..Len(p) : IsSpace(p[i])
\* q without the terrain prefix
Core(q, terrain) == IF terrain /\ StartsData(q) THEN Drop(q, 2) ELSE q
\* names of the violated clauses
V(cond, name) == IF cond THEN {} ELSE {name}
CanonicalViol(p, q, needsPrefix, terrain) ==
    IF Blank(p) THEN V(q = <<>>, "BlankBecomesEmpty")
    ELSE LET c == Core(q, terrain) IN
         V(q = <<>> \/ (~IsSpace(q[1]) /\ ~IsSpace(q[Len(q)])), "NoSurroundingWhitespace")
         \cup V(\A i \in 1..Len(q) : q[i] # "FS", "NoForwardSlash")
         \cup V(\A i \in 1..(Len(q) - 1) : ~(q[i] = "BS" /\ q[i + 1] = "BS"), "SingleBackslashes")
         \cup V(q = <<>> \/ q[1] # "BS", "NoLeadingBackslash")
         \cup V(StartsTex(c) \/ \A i \in 1..Len(c) : ~FolderAt(c, i), "NothingBeforeTexturesFolder")
         \cup V(needsPrefix => StartsTex(c), "TexturesPrefix")
         \cup V(terrain => StartsData(q), "DataPrefix")
=============================================================================
