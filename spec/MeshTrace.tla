------------------------------ MODULE MeshTrace ------------------------------
(* Trace validation of mesh operations executed by the real library (C09, C10, C13, C17, C12). *)
EXTENDS PartApi, Json, IOUtils
VARIABLE l
Tr == ndJsonDeserialize(IOEnv.TRACE)
Tag(S, t) == {t \o ":" \o x : x \in S}
Clauses(ev) ==
    CASE ev.e = "delverts" ->
            DeleteVertsViol(ev.s, ev.I, ev.t)
            \cup (IF ev.reloaded THEN Tag(SameGeometryViol(ev.t, ev.r), "reload") \cup Tag(ShapeConsistentViol(ev.r), "reload") ELSE {})
            \* constructed skinned shapes: the partitions still hold every remaining triangle exactly once (deleting vertices
            \* removes triangles from the shape and from its partitions alike), in memory and in the reloaded file
            \cup (IF ev.checkParts /\ ev.t.nv > 0 /\ Len(ev.t.parts) > 0 /\ PartsIndexViol(ev.t) = {}
                  THEN V(BagEq(AllPartTris(ev.t), CanonSeq(ev.t.tris)), "PartitionsStillHoldEveryTriangleOnce") ELSE {})
            \* ... and the dismember list still has one entry per partition
            \cup (IF ev.checkParts /\ ev.t.nv > 0 THEN V(~ev.t.isDismember \/ Len(ev.t.dismember) = Len(ev.t.parts), "DismemberListAligned") ELSE {})
            \cup (IF ev.checkParts /\ ev.reloaded /\ Len(ev.r.parts) > 0 /\ PartsIndexViol(ev.r) = {}
                  THEN Tag(V(BagEq(AllPartTris(ev.r), CanonSeq(ev.r.tris)), "PartitionsStillHoldEveryTriangleOnce"), "reload") ELSE {})
      [] ev.e = "segments" ->
            SegmentationViol(ev.s, ev.info, ev.L, ev.t)
            \cup (IF ev.reloaded THEN Tag(SegsViol(ev.r), "reload") \cup Tag(V(ev.r.segTriParts = ev.t.segTriParts /\ ev.r.tris = ev.t.tris, "SameAfterReload"), "reload") ELSE {})
      [] ev.e = "partition" -> Tag(PartitionViol(ev.t, ev.boneLimit), ev.op)
      [] ev.e = "partassign" -> PartAssignViol(ev.s, ev.L, ev.t) \cup Tag(PartitionViol(ev.t, ev.boneLimit), "parts")
      \* the partition API as a machine: the abstract labels are folded over the logged calls; every observation is judged
      [] ev.e = "partapi" ->
            LET as == RunApi(StartApi(ev.nt), ev.ops)
            IN  UNION {Tag(ObsViol(as[j], ev.ops[j], ev.obs[j], ev.boneLimit), "after " \o ev.ops[j].k) : j \in 1..Len(ev.obs)}
      [] ev.e = "setget" -> SetGetViol(ev.s, ev.attr, ev.given, ev.t)
      \* inexact values: the getter is within half a storage step (dev1000: largest deviation in 1/1000 of 1/255)
      \* a shape beyond 65535 triangles: the expected list is computed by the harness (naive filter + renumbering)
      [] ev.e = "bigdelete" -> V(ev.gotNt = ev.expectNt /\ ev.sameTris /\ ev.reloadNt = ev.expectNt /\ ev.nt > 65535, "TrianglesWithoutDeletedVerticesInOrder")
      [] ev.e = "approx" -> V(ev.count /\ ev.dev1000 <= 1010, "GetterReturnsWhatWasSetWithinStoragePrecision")
      [] ev.e = "reloadsame" -> SameAfterReloadViol(ev.t, ev.r)
      [] ev.e = "reloadfirst" -> FirstReloadViol(ev.t, ev.r, ev.written)
      [] ev.e = "limit" -> IF ~ev.withinLimits THEN {}
                           ELSE V(ev.got = ev.given, "CreatedShapeReadsBackWhatWasGiven")
                                \cup V(ev.reloaded /\ ev.r = ev.given, "ReadsBackAfterReload")
      [] ev.e = "convert" ->
            IF ev.mismatch THEN {"ConversionApplies"}
            ELSE Tag(ConvertViol(ev.s, ev.t), "converted")
                 \cup (IF ~ev.reloaded THEN {"ConvertedFileSavesAndReloads"}
                       ELSE V(ev.rver = ev.target, "ReloadsInTargetVersion") \cup Tag(ConvertViol(ev.s, ev.r), "reloaded")
                            \cup UNION {Tag(IF ev.r[k].hasSkinInst THEN PartitionViol(ev.r[k], ev.boneLimit) ELSE {}, "reloaded-partitions") : k \in 1..Len(ev.r)})
                 \cup (IF ev.back THEN Tag(ConvertViol(ev.s, ev.b), "there-and-back") ELSE {})
      [] ev.e = "crash" -> {"NoCrash"}
      [] OTHER -> {}
Init == l = 1
Next == /\ l <= Len(Tr)
        /\ LET v == Clauses(Tr[l]) IN IF v = {} THEN TRUE ELSE PrintT(ToJson([viol |-> l, clauses |-> v]))
        /\ l' = l + 1
Spec == Init /\ [][Next]_l
=============================================================================
