----------------------------- MODULE TexPathMC -----------------------------
(***************************************************************************)
(* Exhaustive enumeration of token strings up to length MaxLen x           *)
(* needsPrefix x terrain (C19).  For each, TLC evaluates the transcription *)
(* of the clean-up, the canonical-form clauses on its result and           *)
(* idempotence, and exports [p, np, ter, q, viol] for replay on the real   *)
(* code through every texture slot kind.                                   *)
(***************************************************************************)
EXTENDS TexPath, TLC, Json
CONSTANTS MaxLen, Export, Alphabet
VARIABLES c, ok
Strings == UNION {[1..n -> Alphabet] : n \in 0..MaxLen}
Cases == {[p |-> p, np |-> np, ter |-> ter] : p \in Strings, np \in BOOLEAN, ter \in BOOLEAN}
Result(x) == Clean_Exact(x.p, x.np, x.ter)
ModelViol(x) == LET q == Result(x) IN
                CanonicalViol(x.p, q, x.np, x.ter) \cup V(Clean_Exact(q, x.np, x.ter) = q, "Idempotent")
\* nested quantifiers, not c \in Cases: TLC then enumerates the function sets one element at a time instead of first building
\* (and sorting) the whole union
Init == \E n \in 0..MaxLen : \E p \in [1..n -> Alphabet] : \E np \in BOOLEAN : \E ter \in BOOLEAN :
            /\ c = [p |-> p, np |-> np, ter |-> ter]
            /\ ok = (ModelViol(c) = {})
Next == UNCHANGED <<c, ok>>
Spec == Init /\ [][Next]_<<c, ok>>
\* NOT an invariant of the run: the transcription is allowed to violate the property (then the code is asked);
\* the flag is exported with the case
Emit == Export => PrintT(ToJson([p |-> c.p, np |-> c.np, ter |-> c.ter, q |-> Result(c), viol |-> ModelViol(c)]))
=============================================================================
