----------------------------- MODULE XformTrace -----------------------------
(* Trace validation for C20: results of the real C++ functions (integers scaled by K = 1000) against the exact
   rational model of Xform.tla, and geometric laws of bounding spheres as integer inequalities. *)
EXTENDS Xform, TLC, Json, IOUtils
VARIABLE l
Tr == ndJsonDeserialize(IOEnv.TRACE)
K == 1000
S == 3           \* slack in units of 1/K
V(cond, name) == IF cond THEN {} ELSE {name}
I3 == 1..3
NearX(x, T) == NearVec(x.t, T.t, K, S) /\ NearMat(x.R, T.R, K, S) /\ Near(x.s, T.s, K, S)
CloseI(a, b, s) == Abs(a - b) <= s
CloseVec(a, b, s) == \A i \in I3 : CloseI(a[i], b[i], s)
CloseMat(a, b, s) == \A i \in I3 : CloseVec(a[i], b[i], s)
\* m (scaled by K) is orthonormal: rows have unit length and are pairwise orthogonal (products scaled by K*K)
Ortho(m) == (\A i \in I3 : \A j \in I3 : Abs(m[i][j]) <= 2 * K) /\ \A i \in I3 : \A j \in I3 :   \* (entries first: products stay in 32 bits)
               LET d == m[i][1] * m[j][1] + m[i][2] * m[j][2] + m[i][3] * m[j][3]
               IN  Abs(d - (IF i = j THEN K * K ELSE 0)) <= 8 * K
\* distances on values scaled by K \div 10 so that squares stay inside 32 bits
D10(x) == x \div 10
Dist2(p, c) == (D10(p[1]) - D10(c[1])) * (D10(p[1]) - D10(c[1])) + (D10(p[2]) - D10(c[2])) * (D10(p[2]) - D10(c[2]))
               + (D10(p[3]) - D10(c[3])) * (D10(p[3]) - D10(c[3]))
MinC(P, i) == CHOOSE x \in {P[k][i] : k \in 1..Len(P)} : \A y \in {P[k][i] : k \in 1..Len(P)} : x <= y
MaxC(P, i) == CHOOSE x \in {P[k][i] : k \in 1..Len(P)} : \A y \in {P[k][i] : k \in 1..Len(P)} : x >= y
\* P: points scaled by K. The sphere contains every point and is no larger than the sphere around the bounding-box diagonal.
SphereViolS(P, c, r, sl) ==
    LET rr == D10(r) + sl
        lo == <<MinC(P, 1), MinC(P, 2), MinC(P, 3)>>
        hi == <<MaxC(P, 1), MaxC(P, 2), MaxC(P, 3)>>
        \* (coordinates of the checked sets are below 300 units = 30 000 here: anything beyond that is out of proportion and is
        \* said so without squaring it - TLC integers are 32-bit)
        huge == D10(r) > 20000 \/ \E i \in 1..3 : c[i] > 2000000 \/ c[i] < -2000000
    IN  IF huge THEN {"NotLargerThanBoxDiagonal"}
        ELSE V(r >= 0 /\ \A k \in 1..Len(P) : Dist2(P[k], c) <= rr * rr, "ContainsEveryPoint")
             \cup V(4 * (D10(r) - sl) * (D10(r) - sl) <= Dist2(lo, hi) \/ D10(r) <= sl, "NotLargerThanBoxDiagonal")
SphereViol(P, c, r) == SphereViolS(P, c, r, 3)
ScaleP(P) == [k \in 1..Len(P) |-> <<P[k][1] * K, P[k][2] * K, P[k][3] * K>>]

CaseViol(ev) ==
    LET c == ev.c
        r == ev.r
    IN  CASE c.k = "inv"  -> V(NearX(r.inv, Inverse(c.T)), "InverseIsExactInverse") \cup V(NearX(r.id, IdT), "ComposeWithInverseIsIdentity")
                             \cup V(r.dev4 <= S, "Matrix4InverseMultipliesToIdentity")
          [] c.k = "comp" -> V(NearX(r.comp, Compose(c.A, c.B)), "Compose")
                             \cup V(NearVec(r.av, Apply(Compose(c.A, c.B), c.v), K, S), "ApplyComposition")
                             \cup V(NearVec(r.av2, Apply(c.A, Apply(c.B, c.v)), K, S), "ApplyInSequence")
                             \cup V(NearVec(r.av4, Apply(Compose(c.A, c.B), c.v), K, S), "ToMatrixApplies")
          [] c.k = "mat"  -> V(r.ok /\ NearMat(r.inv, MatInv(c.M), K, S), "MatrixInverse") \cup V(Near(r.det, Det(c.M), K, S), "Determinant")
          [] c.k = "rot"  -> V(Ortho(r.M2), "RotVecToMatOrthonormal")
                             \cup V(c.half \/ NearMat(r.M2, c.R, K, S), "RotVecMatRoundTrip")
                             \cup V(NearMat(r.avg, c.R, K, S) /\ NearMat(r.at.R, c.R, K, S), "AverageOfIdentical")
                             \cup V(NearMat(r.med, c.R, K, S) /\ NearMat(r.mt.R, c.R, K, S), "MedianOfIdentical")
                             \cup V(CloseVec(r.at.t, <<K, -2 * K, 0>>, S) /\ CloseI(r.at.s, 2 * K, S)
                                    /\ CloseVec(r.mt.t, <<K, -2 * K, 0>>, S) /\ CloseI(r.mt.s, 2 * K, S), "AverageMedianTranslationScale")
          [] c.k = "sphere" -> SphereViol(ScaleP(c.P), r.center, r.radius)

Clauses(ev) ==
    CASE ev.e = "case"   -> CaseViol(ev)
      [] ev.e = "rotvec" -> V(CloseVec(ev.v, ev.v2, S), "RotVecMatRoundTrip") \cup V(Ortho(ev.M), "RotVecToMatOrthonormal")
                            \cup V(CloseMat(ev.avg, ev.M, S), "AverageOfIdentical")
      \* any angle: orthonormal, and the same matrix as for the vector reduced by whole turns (which the round-trip law covers)
      [] ev.e = "rotany" -> V(Ortho(ev.M), "RotVecToMatOrthonormal") \cup V(~Ortho(ev.M) \/ CloseMat(ev.M, ev.Mr, S), "RotVecToMatWholeTurnsDoNotMatter")
      [] ev.e = "sphere" -> SphereViolS(ev.P, ev.center, ev.radius, IF "slack" \in DOMAIN ev THEN ev.slack ELSE 3)
      [] ev.e = "bounds" -> SphereViol(ev.P, ev.center, ev.radius)
      [] ev.e = "crash"  -> {"NoCrash"}
      [] OTHER -> {}
Init == l = 1
Next == /\ l <= Len(Tr)
        /\ LET v == Clauses(Tr[l]) IN IF v = {} THEN TRUE ELSE PrintT(ToJson([viol |-> l, clauses |-> v]))
        /\ l' = l + 1
Spec == Init /\ [][Next]_l
=============================================================================
