---------------------------- MODULE NifCopyTrace ----------------------------
(* Trace validation for C11 and C14: recorded steps on real models. Projections are content ids (-1 = destroyed). *)
EXTENDS Integers, Sequences, FiniteSets, TLC, Json, IOUtils
VARIABLE l
Tr == ndJsonDeserialize(IOEnv.TRACE)
V(cond, name) == IF cond THEN {} ELSE {name}
Other(x) == IF x = "A" THEN "B" ELSE "A"
StepViol(ev) ==
    LET act == ev.act IN
    V(ev.foreignA = 0 /\ ev.foreignB = 0, "NoForeignGeometryLink")
    \cup (CASE act.op = "Copy" -> V(ev.after.A = ev.before.A, "SourceUnchangedByCopy")
                                  \cup V(ev.after.B = ev.after.A, "CopyProjectsLikeSource")
                                  \cup V(ev.savedEqual, "CopySavesToSameBytes")
            [] act.op = "Edit" -> V(ev.after[Other(act.side)] = ev.before[Other(act.side)], "EditLeavesOtherSideUnchanged")
            [] act.op = "Save" -> V(ev.after[Other(act.side)] = ev.before[Other(act.side)], "SaveLeavesOtherSideUnchanged")
            [] act.op = "Destroy" -> V(ev.after[Other(act.side)] = ev.before[Other(act.side)], "DestroyLeavesOtherSideUnchanged")
            [] OTHER -> {})
\* C14: the clone's sub-graph (BFS from the cloned shape) against the source's
CloneViol(ev) ==
    V(ev.cloned, "CloneReturned")
    \cup (IF ~ev.cloned THEN {} ELSE
          V(Len(ev.cloneGraph) = Len(ev.srcGraph) /\ \A k \in 1..Len(ev.srcGraph) :
                k > Len(ev.cloneGraph) \/ (ev.cloneGraph[k].type = ev.srcGraph[k].type
                                           \* (block 1 is the shape itself: it carries the new name, inline in files without a string table)
                                           /\ (k = 1 \/ ev.cloneGraph[k].cid = ev.srcGraph[k].cid)), "SameContentAsSource")
          \cup V(Len(ev.cloneGraph) # Len(ev.srcGraph) \/ \A k \in 1..Len(ev.srcGraph) : (ev.cloneGraph[k].refs = ev.srcGraph[k].refs /\ ev.cloneGraph[k].ptrs = ev.srcGraph[k].ptrs), "SameReferenceStructure")
          \cup V(ev.dangling = 0, "EveryReferenceResolvesInDestination")
          \cup V(ev.sharedWithSource = 0, "SelfContained")
          \cup V(ev.cloneBones = ev.srcBones, "SameBoneNames")
          \cup V(ev.bonesExist, "BonesExistInDestination")
          \cup V(ev.cloneParent = ev.wantParent, "CloneHangsBelowTheSourcesParentOrTheDestinationRoot")
          \cup V(ev.srcAfter = ev.srcBefore, "SourceUntouched")
          \cup V(ev.reloadHasClone, "DestinationReloadsWithClone") \cup V(ev.reloadSame, "ReloadedCloneIsTheClone")
          \cup V(ev.geomEqual, "IdenticalGeometry")
          \* the nodes that came along as bones are nodes of the source's kinds
          \cup V(ev.cloneBoneKinds = ev.srcBoneKinds, "BonesCarryTheSourcesContent")
          \* moving the clone's vertices moves the clone only; the moved vertices are what the destination saves
          \cup V(ev.sourceKeptItsVertices /\ ev.srcAfterEdit = ev.srcBefore, "SourceUntouchedByEditingTheClone")
          \cup V(ev.editReloads, "EditedCloneReloads"))
Clauses(ev) ==
    CASE ev.e = "copy-step" -> StepViol(ev)
      [] ev.e = "clone" -> CloneViol(ev)
      [] ev.e = "crash" -> {"NoCrash"}
      [] OTHER -> {}
Init == l = 1
Next == /\ l <= Len(Tr)
        /\ LET v == Clauses(Tr[l]) IN IF v = {} THEN TRUE ELSE PrintT(ToJson([viol |-> l, clauses |-> v]))
        /\ l' = l + 1
Spec == Init /\ [][Next]_l
=============================================================================
