---- MODULE MeshDbg_TTrace_1790985237 ----
EXTENDS Sequences, MeshDbg, TLCExt, Toolbox, Naturals, TLC

_expression ==
    LET MeshDbg_TEExpression == INSTANCE MeshDbg_TEExpression
    IN MeshDbg_TEExpression!expression
----

_trace ==
    LET MeshDbg_TETrace == INSTANCE MeshDbg_TETrace
    IN MeshDbg_TETrace!trace
----

_inv ==
    ~(
        TLCGet("level") = Len(_TETrace)
        /\
        l = ()
    )
----

_init ==
    /\ l = _TETrace[1].l
----

_next ==
    /\ \E i,j \in DOMAIN _TETrace:
        /\ \/ /\ j = i + 1
              /\ i = TLCGet("level")
        /\ l  = _TETrace[i].l
        /\ l' = _TETrace[j].l

\* Uncomment the ASSUME below to write the states of the error trace
\* to the given file in Json format. Note that you can pass any tuple
\* to `JsonSerialize`. For example, a sub-sequence of _TETrace.
    \* ASSUME
    \*     LET J == INSTANCE Json
    \*         IN J!JsonSerialize("MeshDbg_TTrace_1790985237.json", _TETrace)

=============================================================================

 Note that you can extract this module `MeshDbg_TEExpression`
  to a dedicated file to reuse `expression` (the module in the 
  dedicated `MeshDbg_TEExpression.tla` file takes precedence 
  over the module `MeshDbg_TEExpression` below).

---- MODULE MeshDbg_TEExpression ----
EXTENDS Sequences, MeshDbg, TLCExt, Toolbox, Naturals, TLC

expression == 
    [
        \* To hide variables of the `MeshDbg` spec from the error trace,
        \* remove the variables below.  The trace will be written in the order
        \* of the fields of this record.
        l |-> l
        
        \* Put additional constant-, state-, and action-level expressions here:
        \* ,_stateNumber |-> _TEPosition
        \* ,_lUnchanged |-> l = l'
        
        \* Format the `l` variable as Json value.
        \* ,_lJson |->
        \*     LET J == INSTANCE Json
        \*     IN J!ToJson(l)
        
        \* Lastly, you may build expressions over arbitrary sets of states by
        \* leveraging the _TETrace operator.  For example, this is how to
        \* count the number of times a spec variable changed up to the current
        \* state in the trace.
        \* ,_lModCount |->
        \*     LET F[s \in DOMAIN _TETrace] ==
        \*         IF s = 1 THEN 0
        \*         ELSE IF _TETrace[s].l # _TETrace[s-1].l
        \*             THEN 1 + F[s-1] ELSE F[s-1]
        \*     IN F[_TEPosition - 1]
    ]

=============================================================================



Parsing and semantic processing can take forever if the trace below is long.
 In this case, it is advised to uncomment the module below to deserialize the
 trace from a generated binary file.

\*
\*---- MODULE MeshDbg_TETrace ----
\*EXTENDS IOUtils, MeshDbg, TLC
\*
\*trace == IODeserialize("MeshDbg_TTrace_1790985237.bin", TRUE)
\*
\*=============================================================================
\*

---- MODULE MeshDbg_TETrace ----
EXTENDS MeshDbg, TLC

trace == 
    <<
    ([l |-> 1]),
    ([l |-> ])
    >>
----


=============================================================================

---- CONFIG MeshDbg_TTrace_1790985237 ----

INVARIANT
    _inv

CHECK_DEADLOCK
    \* CHECK_DEADLOCK off because of PROPERTY or INVARIANT above.
    FALSE

INIT
    _init

NEXT
    _next

CONSTANT
    _TETrace <- _trace

ALIAS
    _expression
=============================================================================
\* Generated on Fri Oct 02 23:53:58 UTC 2026